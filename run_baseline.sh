#!/bin/sh
# Runs the repository's baseline test suite (guard off) and prints a pass/fail summary.
# usage: run_baseline.sh [repo-dir]   (default /repo)
REPO=${1:-/repo}
export GOFLAGS=-mod=mod GOPROXY=off GOSUMDB=off GOTOOLCHAIN=local
D=$(mktemp -d)
cp "$REPO/go.mod" "$REPO/go.sum" "$D/"
cd "$REPO" && go test -modfile="$D/go.mod" -json -vet=off -count=1 -timeout 25m ./... > "$D/out.json" 2>"$D/err.txt"
RC=$?
python3 - "$D/out.json" <<'PY'
import json,sys
p=f=0; failed=[]
for l in open(sys.argv[1]):
    try: e=json.loads(l)
    except: continue
    if e.get('Test') and e.get('Action')=='pass': p+=1
    if e.get('Test') and e.get('Action')=='fail': f+=1; failed.append(e['Package']+'::'+e['Test'])
print('passed',p,'failed',f)
for x in failed[:20]: print('  FAIL',x)
PY
tail -3 "$D/err.txt"
rm -rf "$D"
exit $RC
