#!/usr/bin/env python3
"""Regenerates the table of independently seeded changes in DESIGN.md (between the SEEDTABLE markers)
from seeded/<id>/meta.json (written by selftest/run.py --seeded --record) and seeded/MATRIX.json
(selftest/run.py --cross), so the document says what the machinery measured, not what was hoped."""
import glob, json, os, re, sys
VD = os.path.dirname(os.path.dirname(os.path.abspath(__file__)))
matrix = {}
try:
    matrix = json.load(open(os.path.join(VD, "seeded", "MATRIX.json")))
except Exception:
    pass
rows = []
miss = []
for d in sorted(glob.glob(os.path.join(VD, "seeded", "C*-m*"))):
    sid = os.path.basename(d)
    m = json.load(open(os.path.join(d, "meta.json")))
    prop = sid.split("-")[0]
    summ = (m.get("one_line") or m.get("summary") or "").strip().replace("|", "/").replace("\n", " ")
    if len(summ) > 150:
        summ = summ[:147].rsplit(" ", 1)[0] + " …"
    det = m.get("detected_by_check")
    obl = "; ".join("`" + o.split(" (")[0] + "`" for o in m.get("failed_obligations", [])[:2])
    others = sorted(p for p, v in matrix.get(sid, {}).items() if v == "VIOLATION" and p != prop)
    if det:
        caught = det + ((" (also " + " ".join(others) + ")") if others else "")
    else:
        caught = "**missed**" + ((" (but " + " ".join(others) + ")") if others else "")
        miss.append(sid)
    note = m.get("miss_reason", "")
    rows.append(f"| {sid} | {summ} | {caught} | {obl or note} |")
out = ["| seed | change | caught by its property's check | first failing obligations / reason |", "|---|---|---|---|"] + rows
out.append("")
out.append(f"{len(rows)} seeded changes, {len(rows) - len(miss)} caught by the check of the property they were made for; missed: {', '.join(miss) or 'none'}.")
p = os.path.join(VD, "DESIGN.md")
s = open(p).read()
a, b = "<!-- SEEDTABLE:BEGIN -->", "<!-- SEEDTABLE:END -->"
if a in s and b in s:
    s = s[:s.index(a) + len(a)] + "\n" + "\n".join(out) + "\n" + s[s.index(b):]
    open(p, "w").write(s)
    print("DESIGN.md table updated:", len(rows), "rows, missed:", miss)
else:
    print("\n".join(out))
