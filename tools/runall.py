#!/usr/bin/env python3
"""Runs every quick check of MANIFEST.json on /repo and prints a one-line summary each (exit 1 if any is not clean)."""
import json, subprocess, sys, os, concurrent.futures
VD=os.path.dirname(os.path.dirname(os.path.abspath(__file__)))
m=json.load(open(os.path.join(VD,'MANIFEST.json')))
subprocess.run(m['setup_cmd'],shell=True,check=True)
def run(c):
    p=subprocess.run(c['quick_cmd'],shell=True,cwd=VD,capture_output=True,text=True)
    ev=json.load(open(c['evidence_file']))
    bad = p.returncode!=0 or ev['level']!=c['level_claimed']['category'] or 'VIOLATION' in p.stdout
    return c['property_id'],p.returncode,ev['level'],ev['coverage'].get('obligations'),ev['coverage'].get('discharged'),ev['wall_s'],len(ev['coverage'].get('undecided',[])),bad,p.stdout[-600:] if bad else ''
badn=0
with concurrent.futures.ThreadPoolExecutor(max_workers=int(os.environ.get('JOBS','3'))) as ex:
    for r in ex.map(run,m['checks']):
        print("%-4s exit=%d level=%-6s obligations=%s discharged=%s wall=%.1fs undecided=%d %s"%(r[0],r[1],r[2],r[3],r[4],r[5],r[6],'<<< NOT CLEAN' if r[7] else ''))
        if r[7]: badn+=1; print(r[8])
sys.exit(1 if badn else 0)
