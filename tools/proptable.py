#!/usr/bin/env python3
"""Regenerates the per-property result table of DESIGN.md (between the PROPTABLE markers) from
MANIFEST.json and evidence/<id>.json, so the numbers are the ones the checks last produced."""
import json, os
VD = os.path.dirname(os.path.dirname(os.path.abspath(__file__)))
man = json.load(open(os.path.join(VD, "MANIFEST.json")))
claimed = {c["property_id"]: c for c in man["checks"]}
na = {n["property_id"]: n["reason"] for n in man.get("not_applicable", [])}
rows = ["| id | status | units under contract | obligations discharged | bounded / known findings | wall (quick) |", "|---|---|---|---|---|---|"]
tot_o = tot_u = 0
for i in range(1, 21):
    pid = "C%02d" % i
    if pid in na:
        rows.append(f"| {pid} | **not applicable** | — | — | — | — |")
        continue
    if pid not in claimed:
        rows.append(f"| {pid} | not claimed | — | — | — | — |")
        continue
    try:
        e = json.load(open(os.path.join(VD, "evidence", pid + ".json")))
    except Exception:
        rows.append(f"| {pid} | claimed | ? | ? | ? | ? |")
        continue
    c = e["coverage"]
    units = [u["function"].split("::")[-1] for u in c.get("functions_under_contract", [])]
    shown = ", ".join("`" + u + "`" for u in units[:6]) + (f", … ({len(units)} in all)" if len(units) > 6 else "")
    extra = []
    for b in c.get("bounded", []) or []:
        if "stand_in" in b:
            extra.append("bounded: " + b["stand_in"].replace(".go.tmpl", "") + " (" + str(b.get("cases", "")).split(" bound=")[0] + ", " + b.get("result", "") + ")")
    for k in c.get("known_findings", []) or []:
        extra.append("known finding: `" + k["obligation"].split("::")[-1] + "`")
    tot_o += c["discharged"]; tot_u += len(units)
    rows.append(f"| {pid} | claimed, level {e['level']} | {shown} | {c['discharged']} of {c['obligations']} | {'; '.join(extra) or '—'} | {e.get('wall_s', 0):.0f} s |")
rows.append("")
rows.append(f"{tot_o} obligations discharged over {tot_u} unit instances (functions shared by several properties are counted once per property).")
p = os.path.join(VD, "DESIGN.md")
s = open(p).read()
a, b = "<!-- PROPTABLE:BEGIN -->", "<!-- PROPTABLE:END -->"
if a in s and b in s:
    s = s[:s.index(a) + len(a)] + "\n" + "\n".join(rows) + "\n" + s[s.index(b):]
    open(p, "w").write(s)
    print("DESIGN.md property table updated")
else:
    print("\n".join(rows))
