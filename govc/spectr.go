package main

// Translation of contract expressions to SMT terms.

import (
	"fmt"
	"go/constant"
	"go/token"
	"go/types"
	"math/big"
	"strings"
)

type SpecEnv struct {
	c     *Ctx
	cur   *State // inside old(): the current state (locals that did not exist at entry keep their current value)
	st    *State
	old   *State
	bound map[string]Val
	pkg   *types.Package // package whose scope resolves Go identifiers
	pos   token.Pos      // position for lexical lookup (NoPos: package scope only)
	depth int
}

type specErr struct{ msg string }

func (e specErr) Error() string { return e.msg }

func (env *SpecEnv) fail(format string, a ...interface{}) {
	panic(specErr{fmt.Sprintf(format, a...)})
}

func (env *SpecEnv) with(name string, v Val) *SpecEnv {
	n := *env
	n.bound = make(map[string]Val, len(env.bound)+1)
	for k, x := range env.bound {
		n.bound[k] = x
	}
	n.bound[name] = v
	return &n
}

// trBool translates a clause; returns error text instead of panicking.
func (env *SpecEnv) trBool(e *SExpr) (t string, err error) {
	defer func() {
		if r := recover(); r != nil {
			if se, ok := r.(specErr); ok {
				err = se
				return
			}
			panic(r)
		}
	}()
	v := env.tr(e)
	if v.S != "Bool" {
		return "", fmt.Errorf("clause %s is not boolean (sort %s)", e, v.S)
	}
	return v.T, nil
}

func (env *SpecEnv) trVal(e *SExpr) (v Val, err error) {
	defer func() {
		if r := recover(); r != nil {
			if se, ok := r.(specErr); ok {
				err = se
				return
			}
			panic(r)
		}
	}()
	return env.tr(e), nil
}

func (c *Ctx) parseSort(s string) (Sort, error) {
	s = strings.TrimSpace(s)
	switch s {
	case "Int", "Bool", "Str", "Iface", "Real":
		return s, nil
	case "Ref", "int":
		return "Int", nil
	case "bool":
		return "Bool", nil
	case "string":
		return "Str", nil
	}
	if i := strings.Index(s, "<"); i >= 0 && strings.HasSuffix(s, ">") {
		head := s[:i]
		inner := s[i+1 : len(s)-1]
		// split top-level commas
		var args []string
		d, last := 0, 0
		for j := 0; j < len(inner); j++ {
			switch inner[j] {
			case '<':
				d++
			case '>':
				d--
			case ',':
				if d == 0 {
					args = append(args, inner[last:j])
					last = j + 1
				}
			}
		}
		args = append(args, inner[last:])
		var as []Sort
		for _, a := range args {
			x, err := c.parseSort(a)
			if err != nil {
				return "", err
			}
			as = append(as, x)
		}
		switch head {
		case "Set":
			return arraySort(as[0], "Bool"), nil
		case "Map":
			if len(as) != 2 {
				return "", fmt.Errorf("Map needs two arguments")
			}
			return arraySort(as[0], as[1]), nil
		case "Slice":
			return c.sliceSortOf(as[0]), nil
		case "Seq":
			return c.seqSort(as[0]), nil
		}
		return "", fmt.Errorf("unknown sort constructor %s", head)
	}
	if c.eng.cs.SpecSorts[s] || strings.HasPrefix(s, "V_") {
		c.ensureSort(s)
		return s, nil
	}
	return "", fmt.Errorf("unknown sort %q", s)
}

func (env *SpecEnv) lookupGo(name string) (types.Object, bool) {
	if env.pkg == nil {
		return nil, false
	}
	var sc *types.Scope
	if env.pos != token.NoPos {
		sc = env.pkg.Scope().Innermost(env.pos)
	}
	if sc == nil {
		sc = env.pkg.Scope()
	}
	_, obj := sc.LookupParent(name, env.pos)
	if obj == nil {
		// short variable declarations: an identifier's scope starts at the END of the statement that declares
		// it, which go/types records; retry without the position restriction
		if _, o2 := sc.LookupParent(name, token.NoPos); o2 != nil {
			if v, ok := o2.(*types.Var); ok && v.Pos() < env.pos {
				return o2, true
			}
		}
		return nil, false
	}
	return obj, true
}

func (env *SpecEnv) tr(e *SExpr) Val {
	c := env.c
	switch e.Op {
	case "int":
		return Val{T: e.S, S: "Int"}
	case "str":
		return Val{T: c.strLit(e.S), S: "Str"}
	case "ident":
		return env.trIdent(e.S)
	case "un":
		x := env.tr(e.Args[0])
		if e.S == "!" {
			env.want(x, "Bool", e)
			return Val{T: not(x.T), S: "Bool"}
		}
		return Val{T: "(- " + x.T + ")", S: "Int"}
	case "bin":
		return env.trBin(e)
	case "ite":
		cnd := env.tr(e.Args[0])
		a := env.tr(e.Args[1])
		b := env.tr(e.Args[2])
		a, b = env.unifyNil(a, b)
		return Val{T: "(ite " + cnd.T + " " + a.T + " " + b.T + ")", S: a.S, GT: a.GT}
	case "sel":
		return env.trSel(e)
	case "index":
		base := env.tr(e.Args[0])
		idx := env.tr(e.Args[1])
		switch {
		case isSliceSort(base.S):
			return Val{T: sAt(base, idx.T), S: sliceElemSort(base.S), GT: elemTypeOrNil(base.GT)}
		case strings.HasPrefix(base.S, "Seq_"):
			m := base.S[len("Seq_"):]
			return Val{T: sel("(qarr_"+m+" "+base.T+")", idx.T), S: seqElem[base.S]}
		case strings.HasPrefix(base.S, "(Array "):
			_, v := splitArraySort(base.S)
			return Val{T: sel(base.T, idx.T), S: v}
		case base.GT != nil:
			if mt, ok := base.GT.Underlying().(*types.Map); ok {
				v, _ := c.mapRead(env.st, base, idx)
				_ = mt
				return v
			}
		}
		env.fail("cannot index %s (sort %s)", e.Args[0], base.S)
	case "forall", "exists":
		n := *env
		n.bound = make(map[string]Val, len(env.bound)+len(e.BVars))
		for k, x := range env.bound {
			n.bound[k] = x
		}
		var binders []string
		for i, v := range e.BVars {
			s, err := c.parseSort(e.BSorts[i])
			if err != nil {
				env.fail("%v", err)
			}
			c.nfr++
			nm := fmt.Sprintf("%s!q%d", v, c.nfr)
			n.bound[v] = Val{T: nm, S: s}
			binders = append(binders, "("+nm+" "+s+")")
		}
		body := n.tr(e.Args[0])
		n.want(body, "Bool", e.Args[0])
		return Val{T: "(" + e.Op + " (" + strings.Join(binders, " ") + ") " + body.T + ")", S: "Bool"}
	case "call":
		return env.trCall(e)
	}
	env.fail("unsupported spec expression %s", e)
	return Val{}
}

var seqElem = map[string]Sort{}

func elemTypeOrNil(t types.Type) types.Type {
	if t == nil {
		return nil
	}
	return elemType(t)
}

func (env *SpecEnv) want(v Val, s Sort, e *SExpr) {
	if v.S != s {
		env.fail("expected sort %s for %s, got %s", s, e, v.S)
	}
}

func (env *SpecEnv) trIdent(name string) Val {
	c := env.c
	switch name {
	case "true", "false":
		return Val{T: name, S: "Bool"}
	case "nil":
		return nilVal
	}
	if v, ok := env.bound[name]; ok {
		return v
	}
	if v, ok := env.st.ghost[name]; ok {
		return v
	}
	if strings.HasPrefix(name, "spawned_") {
		return Val{T: "0", S: "Int"}
	}
	if obj, ok := env.lookupGo(name); ok {
		switch o := obj.(type) {
		case *types.Var:
			if env.cur != nil {
				_, inVars := env.st.vars[o]
				_, inCells := env.st.cells[o]
				if !inVars && !inCells {
					return c.readVar(env.cur, o)
				}
			}
			return c.readVar(env.st, o)
		case *types.Const:
			return env.constToVal(o)
		}
	}
	if sf, ok := c.eng.cs.SpecFuncs[name]; ok && len(sf.Params) == 0 {
		return env.applySpecFunc(sf, nil)
	}
	if _, ok := c.eng.cs.Ghosts[name]; ok {
		// whole ghost field as an array
		key, as := c.ghostKey(name)
		return Val{T: c.heapRead(env.st, key, as), S: as}
	}
	env.fail("unknown identifier %q", name)
	return Val{}
}

func (env *SpecEnv) constToVal(o *types.Const) Val {
	switch o.Val().Kind() {
	case constant.Bool:
		if constant.BoolVal(o.Val()) {
			return Val{T: "true", S: "Bool"}
		}
		return Val{T: "false", S: "Bool"}
	case constant.Int:
		n, _ := new(big.Int).SetString(o.Val().ExactString(), 10)
		return Val{T: smtInt(n), S: "Int", GT: o.Type()}
	case constant.String:
		return Val{T: env.c.strLit(constant.StringVal(o.Val())), S: "Str", GT: o.Type()}
	}
	env.fail("unsupported constant %s", o.Name())
	return Val{}
}

func (env *SpecEnv) unifyNil(a, b Val) (Val, Val) {
	if isNilVal(a) && !isNilVal(b) {
		a = env.nilOf(b)
	} else if isNilVal(b) && !isNilVal(a) {
		b = env.nilOf(a)
	}
	return a, b
}

func (env *SpecEnv) nilOf(like Val) Val {
	if like.GT != nil {
		return env.c.zero(like.GT)
	}
	switch {
	case like.S == "Iface":
		return Val{T: "(mkI 0 0)", S: "Iface"}
	case like.S == "Int":
		return Val{T: "0", S: "Int"}
	}
	env.fail("nil of sort %s", like.S)
	return Val{}
}

func (env *SpecEnv) trBin(e *SExpr) Val {
	c := env.c
	op := e.S
	switch op {
	case "&&", "||", "==>", "<==>":
		a := env.tr(e.Args[0])
		// short circuit on literal truth values: the other side may mention types that are not loaded
		if (op == "==>" || op == "&&") && a.T == "false" && a.S == "Bool" {
			if op == "==>" {
				return Val{T: "true", S: "Bool"}
			}
			return Val{T: "false", S: "Bool"}
		}
		b := env.tr(e.Args[1])
		env.want(a, "Bool", e.Args[0])
		env.want(b, "Bool", e.Args[1])
		switch op {
		case "&&":
			return Val{T: and(a.T, b.T), S: "Bool"}
		case "||":
			return Val{T: or(a.T, b.T), S: "Bool"}
		case "==>":
			return Val{T: implies(a.T, b.T), S: "Bool"}
		default:
			return Val{T: "(= " + a.T + " " + b.T + ")", S: "Bool"}
		}
	case "==", "!=":
		a := env.tr(e.Args[0])
		b := env.tr(e.Args[1])
		var t string
		switch {
		case isNilVal(a) && isNilVal(b):
			t = "true"
		case isNilVal(b):
			t = c.nilTest(a)
		case isNilVal(a):
			t = c.nilTest(b)
		default:
			if a.S != b.S {
				env.fail("sort mismatch in %s: %s vs %s", e, a.S, b.S)
			}
			t = eq(a.T, b.T)
		}
		if op == "!=" {
			t = not(t)
		}
		return Val{T: t, S: "Bool"}
	case "<", "<=", ">", ">=":
		a := env.tr(e.Args[0])
		b := env.tr(e.Args[1])
		env.want(a, "Int", e.Args[0])
		env.want(b, "Int", e.Args[1])
		return Val{T: "(" + op + " " + a.T + " " + b.T + ")", S: "Bool"}
	case "+", "-", "*":
		a := env.tr(e.Args[0])
		b := env.tr(e.Args[1])
		env.want(a, "Int", e.Args[0])
		env.want(b, "Int", e.Args[1])
		return Val{T: "(" + op + " " + a.T + " " + b.T + ")", S: "Int"}
	case "/":
		a := env.tr(e.Args[0])
		b := env.tr(e.Args[1])
		return Val{T: c.goDiv(a.T, b.T), S: "Int"}
	case "%":
		a := env.tr(e.Args[0])
		b := env.tr(e.Args[1])
		return Val{T: "(- " + a.T + " (* " + b.T + " " + c.goDiv(a.T, b.T) + "))", S: "Int"}
	case "in":
		a := env.tr(e.Args[0])
		b := env.tr(e.Args[1])
		if strings.HasPrefix(b.S, "(Array ") {
			return Val{T: sel(b.T, a.T), S: "Bool"}
		}
		if b.GT != nil {
			if _, ok := b.GT.Underlying().(*types.Map); ok {
				return Val{T: and("(not (= "+b.T+" 0))", sel(c.mapDom(env.st, b), a.T)), S: "Bool"}
			}
		}
		env.fail("'in' needs a set or map on the right: %s", e)
	}
	env.fail("unsupported operator %s", op)
	return Val{}
}

func (env *SpecEnv) trSel(e *SExpr) Val {
	c := env.c
	// package-qualified constant?  (pkg.Name)
	if e.Args[0].Op == "ident" {
		if _, isBound := env.bound[e.Args[0].S]; !isBound {
			if obj, ok := env.lookupGo(e.Args[0].S); ok {
				if pn, ok := obj.(*types.PkgName); ok {
					o := pn.Imported().Scope().Lookup(e.S)
					switch x := o.(type) {
					case *types.Const:
						return env.constToVal(x)
					case *types.Var:
						return c.readVar(env.st, x)
					}
					env.fail("unknown %s.%s", e.Args[0].S, e.S)
				}
			}
		}
	}
	cur, t := env.selCursor(e.Args[0])
	if t == nil {
		env.fail("field selection %s on a value without a Go type", e)
	}
	cur, f := env.walkSel(cur, t, e.S, e)
	if cur.isRef {
		return c.fieldRead(env.st, cur.ref, cur.owner, cur.prefix, f)
	}
	fs := c.sortOf(f.Type())
	return Val{T: c.fldApp(cur.val.S, f.Name(), fs, cur.val.T), S: fs, GT: f.Type()}
}

// selCursor evaluates the base of a selection, keeping struct-valued fields reached through a
// pointer as locations (sub-objects) instead of loading them as values.
func (env *SpecEnv) selCursor(e *SExpr) (cursor, types.Type) {
	c := env.c
	if e.Op == "sel" {
		// is it a package-qualified name? then it is a plain value
		isPkg := false
		if e.Args[0].Op == "ident" {
			if _, b := env.bound[e.Args[0].S]; !b {
				if obj, ok := env.lookupGo(e.Args[0].S); ok {
					_, isPkg = obj.(*types.PkgName)
				}
			}
		}
		if !isPkg {
			cur, t := env.selCursor(e.Args[0])
			if t != nil {
				cur2, f := env.walkSel(cur, t, e.S, e)
				if isStructVal(f.Type()) {
					return c.stepField(env.st, cur2, f), f.Type()
				}
				if cur2.isRef {
					v := c.fieldRead(env.st, cur2.ref, cur2.owner, cur2.prefix, f)
					return cursor{val: v}, f.Type()
				}
				fs := c.sortOf(f.Type())
				return cursor{val: Val{T: c.fldApp(cur2.val.S, f.Name(), fs, cur2.val.T), S: fs, GT: f.Type()}}, f.Type()
			}
		}
	}
	v := env.tr(e)
	return cursor{val: v}, v.GT
}

// walkSel follows the (possibly promoted) field path of `name` in type t starting at cur and returns
// the cursor of the struct that directly holds the field, and the field.
func (env *SpecEnv) walkSel(cur cursor, t types.Type, name string, e *SExpr) (cursor, *types.Var) {
	c := env.c
	obj, index, _ := types.LookupFieldOrMethod(t, true, env.pkgOrNil(), name)
	f, ok := obj.(*types.Var)
	if !ok {
		if n := namedOf(t); n != nil && n.Obj().Pkg() != nil {
			obj, index, _ = types.LookupFieldOrMethod(t, true, n.Obj().Pkg(), name)
			f, ok = obj.(*types.Var)
		}
	}
	if !ok {
		// unexported field of a struct type declared in another package (specs may name them): look it up
		// with the package of the field itself
		if stt, isS := derefType(t).Underlying().(*types.Struct); isS {
			for i := 0; i < stt.NumFields(); i++ {
				if g := stt.Field(i); g.Name() == name && g.Pkg() != nil {
					obj, index, _ = types.LookupFieldOrMethod(t, true, g.Pkg(), name)
					f, ok = obj.(*types.Var)
					break
				}
			}
		}
	}
	if !ok {
		env.fail("no field %s in %s (%s)", name, t, e)
	}
	for i, idx := range index {
		if !cur.isRef {
			if p, ok := cur.val.GT.Underlying().(*types.Pointer); ok {
				cur = cursor{isRef: true, ref: cur.val.T, owner: p.Elem()}
				t = p.Elem()
			}
		} else if cur.prefix == "" {
			t = cur.owner
		}
		stt, ok := t.Underlying().(*types.Struct)
		if !ok {
			env.fail("cannot select %s in %s", name, t)
		}
		g := stt.Field(idx)
		if i == len(index)-1 {
			return cur, g
		}
		cur = c.stepField(env.st, cur, g)
		t = g.Type()
	}
	env.fail("bad selection %s", e)
	return cursor{}, f
}

func namedOf(t types.Type) *types.Named {
	if p, ok := t.Underlying().(*types.Pointer); ok {
		t = p.Elem()
	}
	if p, ok := t.(*types.Pointer); ok {
		t = p.Elem()
	}
	n, _ := types.Unalias(t).(*types.Named)
	return n
}

func (env *SpecEnv) pkgOrNil() *types.Package { return env.pkg }

func (c *Ctx) ghostKey(name string) (string, Sort) {
	g := c.eng.cs.Ghosts[name]
	ks, err := c.parseSort(g.KeySort)
	if err != nil {
		panic(specErr{err.Error()})
	}
	vs, err := c.parseSort(g.ValSort)
	if err != nil {
		panic(specErr{err.Error()})
	}
	as := arraySort(ks, vs)
	heapSorts["G:"+name] = as
	return "G:" + name, as
}

func (env *SpecEnv) applySpecFunc(sf *SpecFunc, args []Val) Val {
	c := env.c
	ret, err := c.parseSort(sf.Ret)
	if err != nil {
		env.fail("%v", err)
	}
	var ps []Sort
	for i, s := range sf.PSorts {
		x, err := c.parseSort(s)
		if err != nil {
			env.fail("%v", err)
		}
		ps = append(ps, x)
		if i < len(args) && args[i].S != x {
			if isNilVal(args[i]) && x == "Int" {
				args[i] = Val{T: "0", S: "Int"}
			} else if isNilVal(args[i]) && x == "Iface" {
				args[i] = Val{T: "(mkI 0 0)", S: "Iface"}
			} else {
				env.fail("argument %d of %s: expected %s, got %s", i+1, sf.Name, x, args[i].S)
			}
		}
	}
	if len(args) != len(ps) {
		env.fail("%s expects %d arguments", sf.Name, len(ps))
	}
	if sf.Body != nil {
		if env.depth > 20 {
			env.fail("spec function nesting too deep (recursion?) in %s", sf.Name)
		}
		// defined function: inline with parameters bound; body sees the current state's heap
		n := *env
		n.depth++
		n.bound = map[string]Val{}
		for k, v := range env.bound {
			n.bound[k] = v
		}
		for i, p := range sf.Params {
			n.bound[p] = args[i]
		}
		n.pos = token.NoPos
		v := n.tr(sf.Body)
		if v.S != ret {
			env.fail("body of %s has sort %s, declared %s", sf.Name, v.S, ret)
		}
		return v
	}
	fn := "sf!" + sf.Name
	if len(ps) == 0 {
		c.ensureSort(ret)
		c.decl("const:"+fn, fmt.Sprintf("(declare-const %s %s)", fn, ret))
		return Val{T: fn, S: ret}
	}
	c.declFun(fn, ps, ret)
	var ts []string
	for _, a := range args {
		ts = append(ts, a.T)
	}
	return Val{T: "(" + fn + " " + strings.Join(ts, " ") + ")", S: ret}
}

func (env *SpecEnv) trCall(e *SExpr) Val {
	c := env.c
	head := e.Args[0]
	if head.Op != "ident" {
		env.fail("only named functions can be applied in specs: %s", e)
	}
	name := head.S
	args := e.Args[1:]
	switch name {
	case "old":
		if env.old == nil {
			env.fail("old() not available here: %s", e)
		}
		n := *env
		n.cur = env.st
		n.st = env.old
		n.old = nil
		// bound names that denote entry values stay; results are not visible in old()
		return n.tr(args[0])
	case "len":
		x := env.tr(args[0])
		switch {
		case isSliceSort(x.S):
			return Val{T: sLen(x), S: "Int"}
		case x.S == "Str":
			return Val{T: "(len!Str " + x.T + ")", S: "Int"}
		case strings.HasPrefix(x.S, "Seq_"):
			return Val{T: "(qlen_" + x.S[len("Seq_"):] + " " + x.T + ")", S: "Int"}
		case x.GT != nil:
			if _, ok := x.GT.Underlying().(*types.Map); ok {
				return Val{T: "(ite (= " + x.T + " 0) 0 " + c.mapCard(env.st, x) + ")", S: "Int"}
			}
		}
		env.fail("len of %s (sort %s)", args[0], x.S)
	case "dom":
		x := env.tr(args[0])
		return Val{T: c.mapDom(env.st, x), S: arraySort(c.mapHeap(x.GT).kS, "Bool")}
	case "mapval":
		x := env.tr(args[0])
		mk := c.mapHeap(x.GT)
		return Val{T: c.mapValArr(env.st, x), S: arraySort(mk.kS, mk.vS)}
	case "tag":
		x := env.tr(args[0])
		env.want(x, "Iface", args[0])
		return Val{T: "(itag " + x.T + ")", S: "Int"}
	case "ref":
		x := env.tr(args[0])
		env.want(x, "Iface", args[0])
		return Val{T: "(iref " + x.T + ")", S: "Int"}
	case "pcall":
		// pcall("pkg.Func", args...): application of a function declared `pure` (same symbol as in code)
		if args[0].Op != "str" {
			env.fail("pcall needs a function name string")
		}
		name := args[0].S
		i := strings.LastIndex(name, ".")
		if i < 0 {
			env.fail("pcall: bad name %s", name)
		}
		var fobj *types.Func
		for _, p := range c.eng.pkgs {
			if p.Types != nil && p.PkgPath == name[:i] {
				fobj, _ = p.Types.Scope().Lookup(name[i+1:]).(*types.Func)
			}
		}
		if fobj == nil || !c.eng.isPure(fobj) {
			env.fail("pcall: %s is not a declared pure function", name)
		}
		var ss []Sort
		var ts []string
		for _, a := range args[1:] {
			v := env.tr(a)
			ss = append(ss, v.S)
			ts = append(ts, v.T)
		}
		rt := fobj.Type().(*types.Signature).Results().At(0).Type()
		rs := c.sortOf(rt)
		fn := "pure!" + mangle(fobj.FullName())
		c.declFun(fn, ss, rs)
		return Val{T: "(" + fn + " " + strings.Join(ts, " ") + ")", S: rs, GT: rt}
	case "boxptr":
		// boxptr(x, "pkgname.Type"): the interface value holding the pointer x of type *pkgname.Type
		x := env.tr(args[0])
		if args[1].Op != "str" {
			env.fail("boxptr needs a type name string")
		}
		t := c.eng.lookupNamed(args[1].S)
		if t == nil {
			env.fail("boxptr: unknown type %s", args[1].S)
		}
		return Val{T: fmt.Sprintf("(mkI %d %s)", c.eng.typeTag(types.NewPointer(t)), x.T), S: "Iface"}
	case "gvar":
		// gvar("pkgpath.Name"): the (constant) value of a package-level variable, e.g. a sentinel error
		if args[0].Op != "str" {
			env.fail("gvar needs a string")
		}
		i := strings.LastIndex(args[0].S, ".")
		if i < 0 {
			env.fail("gvar: want pkgpath.Name")
		}
		p := c.eng.pkgs[args[0].S[:i]]
		if p == nil || p.Types == nil {
			env.fail("gvar: package %s not loaded", args[0].S[:i])
		}
		o, ok := p.Types.Scope().Lookup(args[0].S[i+1:]).(*types.Var)
		if !ok {
			env.fail("gvar: no variable %s", args[0].S)
		}
		return c.readVar(env.st, o)
	case "addr":
		// addr(x.f): the reference of the struct-valued (embedded or named) field f — what &x.f is in Go
		cur, t := env.selCursor(args[0])
		if !cur.isRef || t == nil || cur.prefix != "" {
			env.fail("addr: %s is not an addressable named struct field", args[0])
		}
		return Val{T: cur.ref, S: "Int", GT: types.NewPointer(t)}
	case "ptr":
		// ptr(x, "pkgname.Type"): view the reference x as a *pkgname.Type (for field selection)
		x := env.tr(args[0])
		if x.S == "Iface" {
			x = Val{T: "(iref " + x.T + ")", S: "Int"}
		}
		if args[1].Op != "str" {
			env.fail("ptr needs a type name string")
		}
		t := c.eng.lookupNamed(args[1].S)
		if t == nil {
			env.fail("ptr: unknown type %s", args[1].S)
		}
		return Val{T: x.T, S: "Int", GT: types.NewPointer(t)}
	case "zerov":
		// zerov("Sort"): the Go zero value of that sort
		if args[0].Op != "str" {
			env.fail("zerov needs a sort name string")
		}
		so, err := c.parseSort(args[0].S)
		if err != nil {
			env.fail("%v", err)
		}
		if t := c.eng.lookupVSort(so); t != nil {
			return c.zero(t)
		}
		return Val{T: c.zeroOfSort(so, nil), S: so}
	case "bytes2str":
		// bytes2str(b): string(b) for a byte slice b (same symbol as the conversion in code)
		x := env.tr(args[0])
		fn := "str!of!" + mangle(x.S)
		c.declFun(fn, []Sort{x.S}, "Str")
		return Val{T: "(" + fn + " " + x.T + ")", S: "Str"}
	case "boxv":
		// boxv(x, "type"): the interface value holding the (non-pointer) value x of the named Go type
		x := env.tr(args[0])
		if args[1].Op != "str" {
			env.fail("boxv needs a type name string")
		}
		t := c.eng.lookupNamed(args[1].S)
		if t == nil {
			env.fail("boxv: unknown type %s", args[1].S)
		}
		bf := "box!" + mangle(x.S)
		c.declFun(bf, []Sort{x.S}, "Int")
		return Val{T: fmt.Sprintf("(mkI %d (%s %s))", c.eng.typeTag(t), bf, x.T), S: "Iface"}
	case "strs":
		// strs(a, b, ...): the []string value a variadic call site builds from these arguments
		so := c.sliceSortOf("Str")
		arr := c.constArr("Int", "Str", c.strLit(""))
		for i, a := range args {
			v := env.tr(a)
			env.want(v, "Str", a)
			arr = store(arr, fmt.Sprint(i), v.T)
		}
		isnil := "false"
		if len(args) == 0 {
			isnil = "true"
		}
		return Val{T: mkSl(so, "0", fmt.Sprint(len(args)), arr, isnil), S: so}
	case "allocated":
		// allocated(r): the reference r denotes an object that exists in the state the expression is evaluated in
		x := env.tr(args[0])
		if x.S == "Iface" {
			x = Val{T: "(iref " + x.T + ")", S: "Int"}
		}
		return Val{T: "(and (> " + x.T + " 0) (< " + x.T + " " + c.allocCur(env.st) + "))", S: "Bool"}
	case "cell":
		// cell(p, "Sort"): the value of sort Sort stored in the cell p points to (p a pointer or a boxed pointer)
		x := env.tr(args[0])
		if x.S == "Iface" {
			x = Val{T: "(iref " + x.T + ")", S: "Int"}
		}
		if args[1].Op != "str" {
			env.fail("cell needs a sort name string")
		}
		so, err := c.parseSort(args[1].S)
		if err != nil {
			env.fail("%v", err)
		}
		return Val{T: sel(c.heapRead(env.st, "C:"+so, arraySort("Int", so)), x.T), S: so}
	case "deref":
		x := env.tr(args[0])
		if x.GT == nil {
			env.fail("deref of a value without Go type: %s", args[0])
		}
		et := elemType(x.GT)
		if et == nil {
			env.fail("deref of non-pointer %s", args[0])
		}
		return c.cellRead(env.st, x.T, et)
	case "isnil":
		x := env.tr(args[0])
		return Val{T: c.nilTest(x), S: "Bool"}
	case "min", "max":
		a := env.tr(args[0])
		b := env.tr(args[1])
		op := "<="
		if name == "max" {
			op = ">="
		}
		return Val{T: "(ite (" + op + " " + a.T + " " + b.T + ") " + a.T + " " + b.T + ")", S: "Int"}
	case "store":
		a := env.tr(args[0])
		i := env.tr(args[1])
		v := env.tr(args[2])
		return Val{T: store(a.T, i.T, v.T), S: a.S}
	case "sent":
		// ghost sequence of values sent on a channel
		ch := env.tr(args[0])
		es := c.sortOf(elemType(ch.GT))
		key := "G:sent:" + mangle(es)
		qs := c.seqSort(es)
		seqElem[qs] = es
		q := Val{T: sel(c.heapRead(env.st, key, arraySort("Int", qs)), ch.T), S: qs}
		if !strings.Contains(q.T, "!q") {
			// (only when the term mentions no quantified variable) a ghost sequence has a non-negative length (it starts arbitrary and only grows): a fact about this
			// particular read, not an axiom over the (freely generated) sequence sort
			tgt := env.st
			if env.cur != nil {
				tgt = env.cur
			}
			tgt.assume("(>= (qlen_" + string(qs)[len("Seq_"):] + " " + q.T + ") 0)")
		}
		return q
	case "typeis":
		// typeis(x, "pkg.T") / typeis(x, "*pkg.T")
		x := env.tr(args[0])
		env.want(x, "Iface", args[0])
		if args[1].Op != "str" {
			env.fail("typeis needs a type name string")
		}
		{
			name := args[1].S
			ptrTo := strings.HasPrefix(name, "*")
			t := c.eng.lookupNamed(strings.TrimPrefix(name, "*"))
			if t == nil {
				// the type is not part of the loaded program: no value can have it
				return Val{T: "false", S: "Bool"}
			}
			if ptrTo {
				t = types.NewPointer(t)
			}
			return Val{T: fmt.Sprintf("(= (itag %s) %d)", x.T, c.eng.typeTag(t)), S: "Bool"}
		}
	case "unbox":
		// unbox(x, "Sort"): the value of sort Sort held by interface value x
		x := env.tr(args[0])
		env.want(x, "Iface", args[0])
		if args[1].Op != "str" {
			env.fail("unbox needs a sort name string")
		}
		so, err := c.parseSort(args[1].S)
		if err != nil {
			env.fail("%v", err)
		}
		if so == "Int" {
			return Val{T: "(iref " + x.T + ")", S: "Int"}
		}
		uf := "unbox!" + mangle(so)
		c.declFun(uf, []Sort{"Int"}, so)
		return Val{T: "(" + uf + " (iref " + x.T + "))", S: so, GT: c.eng.lookupVSort(so)}
	case "unboxptr":
		x := env.tr(args[0])
		return Val{T: "(iref " + x.T + ")", S: "Int"}
	}
	if _, ok := c.eng.cs.Ghosts[name]; ok {
		key, as := c.ghostKey(name)
		if len(args) != 1 {
			env.fail("ghost field %s takes one argument", name)
		}
		k := env.tr(args[0])
		ks, vs := splitArraySort(as)
		if k.S != ks {
			env.fail("ghost field %s: key sort %s expected, got %s", name, ks, k.S)
		}
		return Val{T: sel(c.heapRead(env.st, key, as), k.T), S: vs}
	}
	if sf, ok := c.eng.cs.SpecFuncs[name]; ok {
		var vs []Val
		for _, a := range args {
			vs = append(vs, env.tr(a))
		}
		return env.applySpecFunc(sf, vs)
	}
	env.fail("unknown function %q in spec", name)
	return Val{}
}

func derefType(t types.Type) types.Type {
	if p, ok := t.Underlying().(*types.Pointer); ok {
		return p.Elem()
	}
	return t
}
