package main

import (
	"fmt"
	"go/ast"
	"go/token"
	"go/types"
	"os"
	"sort"
	"strings"

	"golang.org/x/tools/go/types/typeutil"
)

func (c *Ctx) evalCall(st *State, call *ast.CallExpr) []Val {
	return c.evalCallMode(st, call, false)
}

func (c *Ctx) resultTypes(call *ast.CallExpr) []types.Type {
	t := c.typeOf(call)
	if t == nil {
		return nil
	}
	if tup, ok := t.(*types.Tuple); ok {
		var out []types.Type
		for i := 0; i < tup.Len(); i++ {
			out = append(out, tup.At(i).Type())
		}
		return out
	}
	return []types.Type{t}
}

func (c *Ctx) havocResults(st *State, call *ast.CallExpr, prefix string) []Val {
	var out []Val
	for _, t := range c.resultTypes(call) {
		v := c.havoc(st, prefix, t)
		out = append(out, v)
	}
	return out
}

func (c *Ctx) evalCallMode(st *State, call *ast.CallExpr, spawn bool) []Val {
	if c.prefix == "" && c.unit.Contract != nil && (len(c.unit.Contract.Points) > 0 || len(c.unit.Contract.PointGhosts) > 0) {
		if n, ok := c.callOrd[call]; ok {
			c.pointClauses(st, fmt.Sprintf("before call %s#%d", types.ExprString(call.Fun), n), call.Pos())
			rs := c.evalCallInner(st, call, spawn)
			// the call's results are visible to `after call` clauses as $r0, $r1, ... (they are not assigned yet)
			extra := map[string]Val{}
			for i, r := range rs {
				extra[fmt.Sprintf("$r%d", i)] = r
			}
			c.pointClausesX(st, fmt.Sprintf("after call %s#%d", types.ExprString(call.Fun), n), call.End(), extra)
			return rs
		}
	}
	return c.evalCallInner(st, call, spawn)
}

func (c *Ctx) evalCallInner(st *State, call *ast.CallExpr, spawn bool) []Val {
	// conversion
	if tv, ok := c.info.Types[call.Fun]; ok && tv.IsType() {
		return []Val{c.evalConversion(st, call, tv.Type)}
	}
	// builtin
	if id, ok := unparen(call.Fun).(*ast.Ident); ok {
		if b, ok := c.info.ObjectOf(id).(*types.Builtin); ok {
			return c.evalBuiltin(st, call, b.Name())
		}
	}
	// immediately-invoked function literal
	if fl, ok := unparen(call.Fun).(*ast.FuncLit); ok {
		return c.inlineLit(st, fl, call)
	}
	callee := typeutil.Callee(c.info, call)
	fn, _ := callee.(*types.Func)
	if fn == nil {
		// dynamic call through a function value: a struct field or a parameter of function type may carry
		// an assumed contract (`extern field:pkg.Type.Field as F(args) (results)` / `extern param:Key.name as ...`)
		if ct, sig := c.funcValueContract(call); ct != nil {
			c.eval(st, call.Fun)
			args := c.evalArgs(st, call, sig)
			return c.modularCallSig(st, call, ct, sig, lastName(call.Fun), nil, args)
		}
		for _, a := range call.Args {
			c.eval(st, a)
		}
		c.eval(st, call.Fun)
		c.note("dynamic call through function value: heap havoc'd: " + types.ExprString(call.Fun))
		st.taint = append(st.taint, "dynamic call "+types.ExprString(call.Fun))
		c.heapHavocAll(st)
		rs := c.havocResults(st, call, "dyn")
		for _, r := range rs {
			c.refFact(st, r)
		}
		return rs
	}
	sig := fn.Type().(*types.Signature)
	// receiver
	var recv *Val
	if sig.Recv() != nil {
		sel, ok := unparen(call.Fun).(*ast.SelectorExpr)
		if !ok {
			c.abort("method call without selector at %s", c.pos(call))
			return c.havocResults(st, call, "res")
		}
		rv := c.evalReceiver(st, sel, fn)
		recv = &rv
	}
	// arguments
	args := c.evalArgs(st, call, sig)
	return c.dispatch(st, call, fn, recv, args, spawn)
}

func (c *Ctx) evalArgs(st *State, call *ast.CallExpr, sig *types.Signature) []Val {
	var args []Val
	np := sig.Params().Len()
	// f(g()) with multi-value g
	if len(call.Args) == 1 && np > 1 {
		if inner, ok := unparen(call.Args[0]).(*ast.CallExpr); ok {
			return c.evalCall(st, inner)
		}
	}
	for i := 0; i < np; i++ {
		pt := sig.Params().At(i).Type()
		if sig.Variadic() && i == np-1 {
			if call.Ellipsis != token.NoPos {
				args = append(args, c.evalAs(st, call.Args[i], pt))
				break
			}
			et := pt.(*types.Slice).Elem()
			s := c.sortOf(pt)
			arr := c.constArr("Int", sliceElemSort(s), c.zero(et).T)
			n := 0
			for _, a := range call.Args[i:] {
				v := c.evalAs(st, a, et)
				arr = store(arr, fmt.Sprint(n), v.T)
				n++
			}
			isnil := "false"
			if n == 0 {
				isnil = "true"
			}
			args = append(args, Val{T: mkSl(s, "0", fmt.Sprint(n), arr, isnil), S: s, GT: pt})
			break
		}
		if i < len(call.Args) {
			args = append(args, c.evalAs(st, call.Args[i], pt))
		}
	}
	return args
}

// evalReceiver computes the receiver value of a method call X.m(...), following
// embedded fields and the implicit & / * adjustments.
func (c *Ctx) evalReceiver(st *State, sel *ast.SelectorExpr, fn *types.Func) Val {
	s, ok := c.info.Selections[sel]
	sig := fn.Type().(*types.Signature)
	rt := sig.Recv().Type()
	if !ok {
		// method expression or qualified: evaluate X
		return c.eval(st, sel.X)
	}
	path := s.Index()
	if types.IsInterface(s.Recv()) && len(path) == 1 {
		return c.eval(st, sel.X)
	}
	cur := c.cursorOf(st, sel.X)
	t := s.Recv()
	for _, idx := range path[:len(path)-1] {
		cur, t = c.derefCursor(st, cur, t, sel)
		stt := t.Underlying().(*types.Struct)
		f := stt.Field(idx)
		cur = c.stepField(st, cur, f)
		t = f.Type()
	}
	// now cur designates the receiver operand (of type t, maybe pointer)
	_, wantPtr := rt.Underlying().(*types.Pointer)
	if types.IsInterface(rt) {
		if cur.isRef {
			c.note("interface-typed embedded receiver read")
		}
		return cur.val
	}
	if wantPtr {
		if cur.isRef {
			return Val{T: cur.ref, S: "Int", GT: rt}
		}
		if _, isPtr := cur.val.GT.Underlying().(*types.Pointer); isPtr {
			return Val{T: cur.val.T, S: "Int", GT: rt}
		}
		// addressable value receiver (&x implied): boxed variable?
		if id, ok := unparen(sel.X).(*ast.Ident); ok {
			if o, ok := c.info.ObjectOf(id).(*types.Var); ok {
				if ref, ok := st.cells[o]; ok {
					return Val{T: ref, S: "Int", GT: rt}
				}
			}
		}
		c.note("implicit address-of receiver havoc'd: " + types.ExprString(sel))
		v := c.havoc(st, "recvaddr", rt)
		st.assume("(> " + v.T + " 0)")
		return v
	}
	// value receiver
	if cur.isRef {
		if isStructVal(rt) {
			return c.loadStruct(st, cur.ref, rt)
		}
		return c.cellRead(st, cur.ref, rt)
	}
	if p, isPtr := cur.val.GT.Underlying().(*types.Pointer); isPtr {
		c.addObl(st, "nil", c.ordOf(sel, "nil"), "(not (= "+cur.val.T+" 0))", "nil dereference for value receiver at "+c.pos(sel))
		st.assume("(not (= " + cur.val.T + " 0))")
		return c.cellRead(st, cur.val.T, p.Elem())
	}
	return cur.val
}

// ---------------------------------------------------------------------------

func (c *Ctx) dispatch(st *State, call *ast.CallExpr, fn *types.Func, recv *Val, args []Val, spawn bool) []Val {
	e := c.eng
	sig := fn.Type().(*types.Signature)
	isIfaceMethod := sig.Recv() != nil && types.IsInterface(sig.Recv().Type())
	c.trackLock(st, call, fn)

	if isIfaceMethod && recv != nil && !spawn && c.hasLocalDevirt(call, fn) {
		// a package-local declaration of the dynamic type takes precedence over the interface-level contract
		if rs, ok := c.devirtCall(st, call, fn, recv, args); ok {
			return rs
		}
	}
	if ct := e.externFor(fn); ct != nil {
		return c.modularCall(st, call, fn, ct, recv, args, spawn)
	}
	if ct := e.contractFor(fn); ct != nil {
		return c.modularCall(st, call, fn, ct, recv, args, spawn)
	}
	if spawn {
		c.note("spawned call without contract: nothing to assert: " + fn.FullName())
		return nil
	}
	if e.isPure(fn) {
		return c.pureCall(st, call, fn, recv, args)
	}
	if e.isNoEffect(fn) {
		rs := c.havocResults(st, call, "ne")
		for _, r := range rs {
			c.refFact(st, r)
		}
		return rs
	}
	if !isIfaceMethod {
		if fi := e.funcs[fn.FullName()]; fi != nil && st.depth < 6 {
			if e.cs.Inline[fn.FullName()] || inlinable(fi.Decl) {
				return c.inlineCall(st, call, fi, recv, args)
			}
			if inlinableBranching(fi.Decl) {
				// attempt: execute the branching body and join its return paths; when that is not possible
				// (a path havocs the heap, results of different shapes) everything is rolled back and the call
				// is treated like any other call without contract
				nObl, saved, savedAbort, savedPaths := len(c.obls), st.clone(), c.aborted, c.paths
				rs := c.inlineCall(st, call, fi, recv, args)
				if c.aborted == savedAbort {
					return rs
				}
				c.aborted, c.paths = savedAbort, savedPaths
				c.obls = c.obls[:nObl]
				*st = *saved
			}
		}
	}
	if isIfaceMethod && recv != nil {
		if rs, ok := c.devirtCall(st, call, fn, recv, args); ok {
			return rs
		}
	}
	if isIfaceMethod && recv != nil {
		c.addObl(st, "nilcall", c.ordOf(call.Fun, "nil"), "(not (= (itag "+recv.T+") 0))", "method call "+types.ExprString(call.Fun)+" on nil interface at "+c.pos(call))
	}
	c.note("call without contract: heap havoc'd: " + fn.FullName())
	st.taint = append(st.taint, fn.FullName())
	c.heapHavocAll(st)
	rs := c.havocResults(st, call, "unk")
	for _, r := range rs {
		c.refFact(st, r)
	}
	return rs
}

func (c *Ctx) pureCall(st *State, call *ast.CallExpr, fn *types.Func, recv *Val, args []Val) []Val {
	rts := c.resultTypes(call)
	var all []Val
	if recv != nil {
		all = append(all, *recv)
	}
	all = append(all, args...)
	var out []Val
	for i, rt := range rts {
		name := "pure!" + mangle(fn.FullName())
		if len(rts) > 1 {
			name += fmt.Sprintf("!%d", i)
		}
		rs := c.sortOf(rt)
		var ss []Sort
		var ts []string
		for _, a := range all {
			ss = append(ss, a.S)
			ts = append(ts, a.T)
		}
		var v Val
		if len(all) == 0 {
			c.ensureSort(rs)
			c.decl("const:"+name, fmt.Sprintf("(declare-const %s %s)", name, rs))
			v = Val{T: name, S: rs, GT: rt}
		} else {
			c.declFun(name, ss, rs)
			v = Val{T: "(" + name + " " + strings.Join(ts, " ") + ")", S: rs, GT: rt}
		}
		for _, f := range c.typeFacts(v) {
			st.assume(f)
		}
		out = append(out, v)
	}
	return out
}

// inlinable: straight-line body (locks, defers, assignments, one return).
func inlinable(fd *ast.FuncDecl) bool {
	if fd.Body == nil || len(fd.Body.List) > 6 {
		return false
	}
	ok := true
	for _, s := range fd.Body.List {
		switch x := s.(type) {
		case *ast.ExprStmt, *ast.DeferStmt, *ast.ReturnStmt, *ast.AssignStmt, *ast.IncDecStmt:
			_ = x
		default:
			ok = false
		}
	}
	if !ok {
		return false
	}
	// no function literals, no go statements
	ast.Inspect(fd.Body, func(n ast.Node) bool {
		switch n.(type) {
		case *ast.FuncLit, *ast.GoStmt:
			ok = false
		}
		return ok
	})
	return ok
}

// inlinableBranching: small loop-free bodies with plain if/else (their return paths are joined).
func inlinableBranching(fd *ast.FuncDecl) bool {
	if fd.Body == nil || len(fd.Body.List) > 12 {
		return false
	}
	ok := true
	nIf := 0
	ast.Inspect(fd.Body, func(n ast.Node) bool {
		switch n.(type) {
		case *ast.FuncLit, *ast.GoStmt, *ast.ForStmt, *ast.RangeStmt, *ast.SwitchStmt, *ast.TypeSwitchStmt,
			*ast.SelectStmt, *ast.LabeledStmt, *ast.BranchStmt, *ast.SendStmt, *ast.DeferStmt:
			ok = false
		case *ast.IfStmt:
			nIf++
		}
		return ok
	})
	return ok && nIf >= 1 && nIf <= 3
}

var calleeBoxed = map[*ast.FuncDecl]map[types.Object]bool{}

// inlineCall executes the callee body in place (single path expected).
func (c *Ctx) inlineCall(st *State, call *ast.CallExpr, fi *FuncInfo, recv *Val, args []Val) []Val {
	savedInfo, savedPkg, savedOrd, savedLoop, savedPrefix, savedCalls := c.info, c.pkg, c.ord, c.loopID, c.prefix, c.callOrd
	savedDefers := st.defers
	st.defers = nil
	ot := buildOrdinals(fi.Decl.Body, fi.Pkg.TypesInfo)
	c.prefix = fmt.Sprintf("%sc%d@%s:", savedPrefix, savedCalls[call], shortKey(fi.Obj))
	c.info, c.pkg, c.ord, c.loopID, c.callOrd = fi.Pkg.TypesInfo, fi.Pkg, ot.ord, ot.loopID, ot.calls
	st.depth++
	defer func() {
		c.info, c.pkg, c.ord, c.loopID, c.prefix, c.callOrd = savedInfo, savedPkg, savedOrd, savedLoop, savedPrefix, savedCalls
	}()

	// bind receiver and parameters (a parameter whose address is taken in the callee lives in a fresh cell)
	fd := fi.Decl
	cb, okb := calleeBoxed[fd]
	if !okb {
		cb = map[types.Object]bool{}
		findBoxed(fd.Body, c.info, cb)
		calleeBoxed[fd] = cb
	}
	for o := range cb {
		c.boxed[o] = true
	}
	bindParam := func(o *types.Var, v Val) {
		delete(st.cells, o)
		delete(st.vars, o)
		v = Val{T: v.T, S: v.S, GT: o.Type()}
		if cb[o] {
			ref := c.alloc(st)
			st.cells[o] = ref
			c.cellWrite(st, ref, o.Type(), v)
			return
		}
		st.vars[o] = v
	}
	if fd.Recv != nil && len(fd.Recv.List) > 0 && len(fd.Recv.List[0].Names) > 0 && recv != nil {
		if o, ok := c.info.Defs[fd.Recv.List[0].Names[0]].(*types.Var); ok {
			bindParam(o, *recv)
		}
	}
	i := 0
	for _, fld := range fd.Type.Params.List {
		for _, n := range fld.Names {
			if o, ok := c.info.Defs[n].(*types.Var); ok && i < len(args) {
				bindParam(o, args[i])
			}
			i++
		}
		if len(fld.Names) == 0 {
			i++
		}
	}
	var resObjs []*types.Var
	if fd.Type.Results != nil {
		for _, fld := range fd.Type.Results.List {
			for _, n := range fld.Names {
				if o, ok := c.info.Defs[n].(*types.Var); ok {
					st.vars[o] = c.zero(o.Type())
					resObjs = append(resObjs, o)
				}
			}
		}
	}
	var out []Val
	done := 0
	var final *State
	var finals []*State
	var outs [][]Val
	base := len(st.pc)
	entry := st.clone()
	k := konts{}
	finish := func(s *State, vals []Val) {
		if len(vals) == 0 && len(resObjs) > 0 {
			for _, o := range resObjs {
				vals = append(vals, c.readVar(s, o))
			}
		}
		// convert to declared result types
		sigR := fi.Obj.Type().(*types.Signature).Results()
		for j := range vals {
			if j < sigR.Len() {
				vals[j] = c.convertTo(s, vals[j], sigR.At(j).Type())
			}
		}
		c.runDefers(s, func(s2 *State) {
			done++
			out = vals
			final = s2
			finals = append(finals, s2)
			outs = append(outs, vals)
		})
	}
	k.next = func(s *State) { finish(s, nil) }
	k.ret = finish
	c.execBlock(st, fd.Body.List, k)
	st.depth--
	if done > 1 && done <= 16 {
		// a branching callee without loops: its return paths are joined (guarded facts, ite-free encoding
		// with one fresh constant per differing result / heap key), so the caller continues on ONE path
		if m, vals, ok := c.joinPaths(entry, base, finals, outs); ok {
			m.depth = entry.depth
			*st = *m
			st.defers = savedDefers
			return vals
		}
	}
	if done != 1 {
		c.abort("inlined call %s produced %d paths (needs a contract)", fi.Obj.FullName(), done)
		return c.havocResults(st, call, "res")
	}
	if final != st {
		*st = *final
	}
	st.defers = savedDefers
	return out
}

// joinPaths merges the end states of the return paths of an inlined callee. Sound: exactly one path is taken,
// and everything a path assumed or computed is kept under that path's condition.
func (c *Ctx) joinPaths(entry *State, base int, rs []*State, vals [][]Val) (*State, []Val, bool) {
	for _, r := range rs {
		if r.epoch != entry.epoch || len(r.pc) < base || !sameLocks(r, rs[0]) {
			return nil, nil, false
		}
		for k2 := range r.heap {
			if strings.HasPrefix(k2, "\x00ep:") {
				return nil, nil, false
			}
		}
	}
	n := len(rs)
	conds := make([]string, n)
	m := entry.clone()
	m.locks = rs[0].clone().locks
	for i, r := range rs {
		conds[i] = c.named(m, "jc", Val{T: and(r.pc[base:]...), S: "Bool"}).T
	}
	m.assume(or(conds...))
	pick := func(prefix string, sort Sort, terms []string) string {
		same := true
		for _, t := range terms[1:] {
			if t != terms[0] {
				same = false
			}
		}
		if same {
			return terms[0]
		}
		nm := c.fresh(prefix, sort)
		for i, t := range terms {
			m.assume(implies(conds[i], "(= "+nm+" "+t+")"))
		}
		return nm
	}
	// results
	var out []Val
	if n > 0 {
		for j := range vals[0] {
			ts := make([]string, n)
			for i := range vals {
				if j >= len(vals[i]) || vals[i][j].S != vals[0][j].S {
					return nil, nil, false
				}
				ts[i] = vals[i][j].T
			}
			v := vals[0][j]
			out = append(out, Val{T: pick("jr", v.S, ts), S: v.S, GT: v.GT})
		}
	}
	// heap
	keys := map[string]bool{}
	for _, r := range rs {
		for k2 := range r.heap {
			keys[k2] = true
		}
	}
	for _, k2 := range sortedKeys(keys) {
		as, ok := heapSorts[k2]
		if !ok {
			return nil, nil, false
		}
		ts := make([]string, n)
		for i, r := range rs {
			ts[i] = c.heapRead(r, k2, as)
		}
		m.heap[k2] = pick("H!"+mangle(k2), as, ts)
	}
	// ghost lets / spawn counters
	gk := map[string]bool{}
	for _, r := range rs {
		for g := range r.ghost {
			gk[g] = true
		}
	}
	for _, g := range sortedKeys(gk) {
		ts := make([]string, n)
		var sort Sort
		for i, r := range rs {
			v, ok := r.ghost[g]
			if !ok {
				if strings.HasPrefix(g, "spawned_") {
					v = Val{T: "0", S: "Int"}
				} else if ev, ok2 := entry.ghost[g]; ok2 {
					v = ev
				} else {
					return nil, nil, false
				}
			}
			if sort != "" && v.S != sort {
				return nil, nil, false
			}
			sort = v.S
			ts[i] = v.T
		}
		m.ghost[g] = Val{T: pick("jg", sort, ts), S: sort}
	}
	// caller-visible boxed locals allocated before the call keep their cells; cells created inside are dropped
	tset := map[string]bool{}
	for _, r := range rs {
		for _, t := range r.taint {
			if !tset[t] {
				tset[t] = true
			}
		}
	}
	m.taint = nil
	for t := range tset {
		m.taint = append(m.taint, t)
	}
	sort.Strings(m.taint)
	return m, out, true
}

// inlineLit executes an immediately invoked function literal in place.
func (c *Ctx) inlineLit(st *State, fl *ast.FuncLit, call *ast.CallExpr) []Val {
	i := 0
	for _, fld := range fl.Type.Params.List {
		for _, n := range fld.Names {
			if o, ok := c.info.Defs[n].(*types.Var); ok && i < len(call.Args) {
				st.vars[o] = c.evalAs(st, call.Args[i], o.Type())
			}
			i++
		}
	}
	savedDefers := st.defers
	st.defers = nil
	var out []Val
	done := 0
	var final *State
	finish := func(s *State, vals []Val) {
		c.runDefers(s, func(s2 *State) { done++; out = vals; final = s2 })
	}
	c.execBlock(st, fl.Body.List, konts{next: func(s *State) { finish(s, nil) }, ret: finish})
	if done != 1 {
		c.abort("inlined function literal at %s produced %d paths", c.pos(fl), done)
		return nil
	}
	if final != st {
		*st = *final
	}
	st.defers = savedDefers
	return out
}

// runDefers executes deferred calls LIFO then continues with k.
func (c *Ctx) runDefers(st *State, k func(*State)) {
	if len(st.defers) == 0 {
		k(st)
		return
	}
	d := st.defers[len(st.defers)-1]
	st.defers = st.defers[:len(st.defers)-1]
	if fl, ok := unparen(d.call.Fun).(*ast.FuncLit); ok {
		// deferred closure: run its body (may fork)
		kk := konts{}
		kk.next = func(s *State) { c.runDefers(s, k) }
		kk.ret = func(s *State, _ []Val) { c.runDefers(s, k) }
		saved := st.defers
		st.defers = nil
		kk2 := kk
		kk2.next = func(s *State) { s.defers = saved; c.runDefers(s, k) }
		kk2.ret = func(s *State, _ []Val) { s.defers = saved; c.runDefers(s, k) }
		c.execBlock(st, fl.Body.List, kk2)
		return
	}
	c.evalCall(st, d.call)
	c.runDefers(st, k)
}

// ---------------------------------------------------------------------------
// builtins

func (c *Ctx) evalBuiltin(st *State, call *ast.CallExpr, name string) []Val {
	switch name {
	case "len", "cap":
		v := c.eval(st, call.Args[0])
		t := types.Typ[types.Int]
		switch {
		case isSliceSort(v.S):
			if name == "cap" {
				c.declFun("cap!extra", []Sort{v.S}, "Int")
				st.assume("(>= (cap!extra " + v.T + ") 0)")
				return []Val{{T: "(+ " + sLen(v) + " (cap!extra " + v.T + "))", S: "Int", GT: t}}
			}
			return []Val{{T: sLen(v), S: "Int", GT: t}}
		case v.S == "Str":
			st.assume("(>= (len!Str " + v.T + ") 0)")
			return []Val{{T: "(len!Str " + v.T + ")", S: "Int", GT: t}}
		}
		if v.GT != nil {
			if _, ok := v.GT.Underlying().(*types.Map); ok {
				c.mapFacts(st, v)
				return []Val{{T: "(ite (= " + v.T + " 0) 0 " + c.mapCard(st, v) + ")", S: "Int", GT: t}}
			}
		}
		r := c.havoc(st, "len", t)
		st.assume("(>= " + r.T + " 0)")
		return []Val{r}
	case "append":
		s := c.eval(st, call.Args[0])
		rt := c.typeOf(call)
		if isNilVal(s) {
			s = c.zero(rt)
		}
		et := elemType(rt)
		if call.Ellipsis != token.NoPos {
			t := c.evalAs(st, call.Args[1], rt)
			if t.S == "Str" {
				c.note("append(bytes, string...) havoc'd")
				r := c.havoc(st, "app", rt)
				st.assume("(= " + sLen(r) + " (+ " + sLen(s) + " (len!Str " + t.T + ")))")
				return []Val{r}
			}
			r := c.havoc(st, "app", rt)
			st.assume("(= " + sLen(r) + " (+ " + sLen(s) + " " + sLen(t) + "))")
			st.assume(fmt.Sprintf("(= %s (and %s %s))", sNil(r), sNil(s), sNil(t)))
			c.nfr++
			j := fmt.Sprintf("j!q%d", c.nfr)
			st.assume(fmt.Sprintf("(forall ((%s Int)) (! (=> (and (<= 0 %s) (< %s %s)) (= %s %s)) :pattern (%s)))", j, j, j, sLen(s), sAt(r, j), sAt(s, j), sel(sArr(r), j)))
			st.assume(fmt.Sprintf("(forall ((%s Int)) (! (=> (and (<= %s %s) (< %s (+ %s %s))) (= %s %s)) :pattern (%s)))", j, sLen(s), j, j, sLen(s), sLen(t), sel(sArr(r), j), sel(sArr(t), "(- "+j+" "+sLen(s)+")"), sel(sArr(r), j)))
			return []Val{r}
		}
		cur := s
		for _, a := range call.Args[1:] {
			v := c.evalAs(st, a, et)
			cur = Val{T: mkSl(cur.S, sOff(cur), "(+ "+sLen(cur)+" 1)", store(sArr(cur), "(+ "+sOff(cur)+" "+sLen(cur)+")", v.T), "false"), S: cur.S, GT: rt}
		}
		r := Val{T: c.fresh("app", cur.S), S: cur.S, GT: rt}
		st.assume(eq(r.T, cur.T))
		return []Val{r}
	case "make":
		t := c.typeOf(call)
		switch u := t.Underlying().(type) {
		case *types.Slice:
			n := Val{T: "0", S: "Int"}
			if len(call.Args) > 1 {
				n = c.eval(st, call.Args[1])
			}
			c.addObl(st, "make", c.ordOf(call, "make"), "(>= "+n.T+" 0)", "make size non-negative at "+c.pos(call))
			st.assume("(>= " + n.T + " 0)")
			if len(call.Args) > 2 {
				cp := c.eval(st, call.Args[2])
				c.addObl(st, "make", c.ordOf(call, "make")+".cap", "(>= "+cp.T+" "+n.T+")", "make capacity >= length at "+c.pos(call))
			}
			s := c.sortOf(t)
			return []Val{{T: mkSl(s, "0", n.T, c.constArr("Int", sliceElemSort(s), c.zero(u.Elem()).T), "false"), S: s, GT: t}}
		case *types.Map:
			return []Val{c.newMap(st, t)}
		case *types.Chan:
			r := c.alloc(st)
			return []Val{{T: r, S: "Int", GT: t}}
		}
	case "new":
		t := c.typeOf(call)
		r := c.alloc(st)
		c.cellWrite(st, r, elemType(t), c.zero(elemType(t)))
		return []Val{{T: r, S: "Int", GT: t}}
	case "delete":
		m := c.eval(st, call.Args[0])
		k := c.evalAs(st, call.Args[1], m.GT.Underlying().(*types.Map).Key())
		c.mapDelete(st, m, k)
		return nil
	case "close":
		c.eval(st, call.Args[0])
		return nil
	case "panic":
		c.addObl(st, "panic", c.ordOf(call, "panic"), "false", "explicit panic reachable at "+c.pos(call))
		st.assume("false")
		return nil
	case "copy":
		c.note("copy() havocs the destination")
		d := c.eval(st, call.Args[0])
		c.eval(st, call.Args[1])
		nd := c.havoc(st, "copied", d.GT)
		st.assume(eq(sLen(nd), sLen(d)))
		c.assignTo(st, call.Args[0], nd)
		return []Val{c.havoc(st, "ncopied", types.Typ[types.Int])}
	case "min", "max":
		a := c.eval(st, call.Args[0])
		b := c.eval(st, call.Args[1])
		op := "<="
		if name == "max" {
			op = ">="
		}
		return []Val{{T: "(ite (" + op + " " + a.T + " " + b.T + ") " + a.T + " " + b.T + ")", S: "Int", GT: a.GT}}
	}
	c.note("unsupported builtin " + name)
	return c.havocResults(st, call, "bi")
}

// ---------------------------------------------------------------------------
// modular calls

// bindNames builds the spec environment bindings of a callee contract.
func (c *Ctx) calleeNames(fn *types.Func, ct *FuncContract) (recvName string, params []string, results []string) {
	if ct.Extern {
		return ct.RecvName, ct.ParamName, ct.ResName
	}
	if fi := c.eng.funcs[fn.FullName()]; fi != nil {
		fd := fi.Decl
		if fd.Recv != nil && len(fd.Recv.List) > 0 && len(fd.Recv.List[0].Names) > 0 {
			recvName = fd.Recv.List[0].Names[0].Name
		}
		for _, fld := range fd.Type.Params.List {
			if len(fld.Names) == 0 {
				params = append(params, "_")
			}
			for _, n := range fld.Names {
				params = append(params, n.Name)
			}
		}
		if fd.Type.Results != nil {
			for _, fld := range fd.Type.Results.List {
				if len(fld.Names) == 0 {
					results = append(results, "")
				}
				for _, n := range fld.Names {
					results = append(results, n.Name)
				}
			}
		}
	}
	return
}

func bindResults(bound map[string]Val, names []string, vals []Val) {
	for i, v := range vals {
		if i < len(names) && names[i] != "" && names[i] != "_" {
			bound[names[i]] = v
		}
		bound[fmt.Sprintf("result%d", i)] = v
		if i == 0 {
			bound["result"] = v
		}
	}
}

func (c *Ctx) modularCall(st *State, call *ast.CallExpr, fn *types.Func, ct *FuncContract, recv *Val, args []Val, spawn bool) []Val {
	recvName, pnames, rnames := c.calleeNames(fn, ct)
	bound := map[string]Val{}
	if recv != nil && recvName != "" && recvName != "_" {
		bound[recvName] = *recv
	}
	for i, a := range args {
		if i < len(pnames) && pnames[i] != "_" {
			bound[pnames[i]] = a
		}
	}
	var cpkg *types.Package
	if !ct.Extern {
		cpkg = fn.Pkg()
	} else if ct.PkgPath != "" {
		if p := c.eng.pkgs[ct.PkgPath]; p != nil {
			cpkg = p.Types
		}
	}
	short := shortKey(fn)
	ord := fmt.Sprintf("#%d", c.callOrd[call])
	if recv != nil && recv.S == "Iface" && c.prefix == "" && c.unit.Contract != nil && c.unit.Contract.Flags["nilcalls"] {
		c.addObl(st, "nilcall", fmt.Sprintf("nilcall@%s%s", short, ord), "(not (= (itag "+recv.T+") 0))", "method call "+types.ExprString(call.Fun)+" on a nil interface at "+c.pos(call))
		st.assume("(not (= (itag " + recv.T + ") 0))")
	}
	pre := st.clone()
	env := &SpecEnv{c: c, st: st, old: nil, bound: bound, pkg: cpkg}
	// ghost lets of the callee contract denote entry values: evaluate them in the pre-call state
	for _, g := range ct.Ghosts {
		v, err := env.trVal(g.Expr)
		if err != nil {
			c.abort("contract of %s: ghost %s: %v", fn.FullName(), g.Name, err)
			return c.havocResults(st, call, "res")
		}
		if isSliceSort(v.S) {
			st.assume("(>= " + sLen(v) + " 0)")
		}
		v = c.named(st, "cg_"+g.Name, v)
		bound[g.Name] = v
	}
	for i, r := range ct.Requires {
		t, err := env.trBool(r.Expr)
		if err != nil {
			c.abort("contract of %s: requires %d: %v", fn.FullName(), i+1, err)
			return c.havocResults(st, call, "res")
		}
		nbp := len(c.obls)
		c.addObl(st, "pre", fmt.Sprintf("pre@%s%s.%d", short, ord, i+1), t, fmt.Sprintf("precondition `%s` of %s at %s", r.Src, short, c.pos(call)))
		if len(r.Props) > 0 && len(c.obls) > nbp {
			c.obls[len(c.obls)-1].Props = r.Props
		}
		st.assume(t)
	}
	if spawn {
		return nil
	}
	// havoc what the callee may modify
	if !ct.HasMod {
		c.note("callee contract without modifies clause: heap havoc'd: " + fn.FullName())
		c.heapHavocAll(st)
	} else {
		for _, item := range ct.Modifies {
			if err := c.applyModifies(st, env, item, fn); err != nil {
				c.abort("contract of %s: modifies %s: %v", fn.FullName(), item, err)
				return c.havocResults(st, call, "res")
			}
		}
	}
	// results
	var results []Val
	sigR := fn.Type().(*types.Signature).Results()
	for i := 0; i < sigR.Len(); i++ {
		v := c.havoc(st, "r_"+mangle(fn.Name()), sigR.At(i).Type())
		results = append(results, v)
	}
	// advance allocation pointer (callee may allocate), results are below it
	na := c.fresh("alloc", "Int")
	st.assume("(>= " + na + " " + c.allocCur(st) + ")")
	st.ghost["$alloc"] = Val{T: na, S: "Int"}
	for _, r := range results {
		c.refFact(st, r)
	}
	post := map[string]Val{}
	for k, v := range bound {
		post[k] = v
	}
	bindResults(post, rnames, results)
	env2 := &SpecEnv{c: c, st: st, old: pre, bound: post, pkg: cpkg}
	for i, en := range ct.Ensures {
		t, err := env2.trBool(en.Expr)
		if err != nil {
			if strings.Contains(err.Error(), "unknown identifier") && !ct.Extern {
				// a postcondition stated over the callee's locals is checked on the callee only
				c.note(fmt.Sprintf("ensures %d of %s mentions callee locals: not assumed at call sites", i+1, shortKey(fn)))
				// (if the identifier is simply gone — a renamed parameter — the caller has lost a fact it relied on:
				// what fails afterwards on this path is "the callee's contract does not bind", not a verdict)
				st.taint = append(st.taint, fmt.Sprintf("ensures %d of %s (%v)", i+1, fn.FullName(), err))
				continue
			}
			c.abort("contract of %s: ensures %d: %v", fn.FullName(), i+1, err)
			return results
		}
		st.assume(t)
	}
	return results
}

// applyModifies havocs one modifies item.
func (c *Ctx) applyModifies(st *State, env *SpecEnv, item string, fn *types.Func) error {
	cond := ""
	if strings.HasPrefix(item, "when ") {
		i := strings.Index(item, ":")
		if i < 0 {
			return fmt.Errorf("conditional modifies needs 'when cond : item'")
		}
		ce, err := parseSpecExpr(item[5:i])
		if err != nil {
			return err
		}
		t, err := env.trBool(ce)
		if err != nil {
			return err
		}
		cond = t
		item = strings.TrimSpace(item[i+1:])
		if cond == "false" {
			return nil
		}
		if cond == "true" {
			cond = ""
		}
	}
	keys, loc, err := c.resolveMod(env, item, fn)
	if err != nil {
		return err
	}
	if os.Getenv("GOVC_DEBUG_MOD") != "" {
		fmt.Fprintf(os.Stderr, "applyModifies item=%q cond=%q keys=%v loc=%q\n", item, cond, keys, loc)
	}
	if keys == nil {
		c.heapHavocAll(st)
		return nil
	}
	for _, k := range keys {
		as, ok := heapSorts[k]
		if !ok {
			if so := c.sortOfKey(k); so != "" {
				as, ok = so, true
				heapSorts[k] = so
			}
		}
		if loc == "" || !ok {
			if cond != "" && ok {
				cur := c.heapRead(st, k, as)
				fr := c.fresh("H!"+mangle(k), as)
				c.heapSet(st, k, as, "(ite "+cond+" "+fr+" "+cur+")")
				continue
			}
			c.heapHavocKey(st, k)
			continue
		}
		_, vs := splitArraySort(as)
		cur := c.heapRead(st, k, as)
		fr := c.fresh("mod", vs)
		if cond != "" {
			c.heapSet(st, k, as, "(ite "+cond+" "+store(cur, loc, fr)+" "+cur+")")
			continue
		}
		c.heapSet(st, k, as, store(cur, loc, fr))
	}
	return nil
}

// resolveMod turns a modifies item into heap keys (nil = everything) and an
// optional single location (SMT term) within those keys.
func (c *Ctx) resolveMod(env *SpecEnv, item string, fn *types.Func) (keys []string, loc string, err error) {
	item = strings.TrimSpace(item)
	if strings.HasPrefix(item, "when ") {
		if i := strings.Index(item, ":"); i >= 0 {
			item = strings.TrimSpace(item[i+1:])
		}
	}
	if item == "*" {
		return nil, "", nil
	}
	e, perr := parseSpecExpr(item)
	if perr != nil {
		return nil, "", perr
	}
	defer func() {
		if r := recover(); r != nil {
			if se, ok := r.(specErr); ok {
				err = se
				return
			}
			panic(r)
		}
	}()
	switch e.Op {
	case "str":
		if _, ok := heapSorts[e.S]; !ok {
			if as := c.sortOfKey(e.S); as != "" {
				heapSorts[e.S] = as
			}
		}
		return []string{e.S}, "", nil
	case "ident":
		if _, ok := c.eng.cs.Ghosts[e.S]; ok {
			k, _ := c.ghostKey(e.S)
			return []string{k}, "", nil
		}
	case "call":
		name := e.Args[0].S
		if _, ok := c.eng.cs.Ghosts[name]; ok && len(e.Args) == 2 {
			k, _ := c.ghostKey(name)
			if env == nil {
				return []string{k}, "", nil
			}
			v := env.tr(e.Args[1])
			return []string{k}, v.T, nil
		}
		if name == "cell" && len(e.Args) == 3 && e.Args[2].Op == "str" {
			so, err := c.parseSort(e.Args[2].S)
			if err != nil {
				return nil, "", err
			}
			k := "C:" + so
			heapSorts[k] = arraySort("Int", so)
			if env == nil {
				return []string{k}, "", nil
			}
			v := env.tr(e.Args[1])
			if v.S == "Iface" {
				return []string{k}, "(iref " + v.T + ")", nil
			}
			return []string{k}, v.T, nil
		}
		if name == "mapof" && len(e.Args) == 2 {
			if env == nil {
				return nil, "", fmt.Errorf("mapof needs an environment")
			}
			v := env.tr(e.Args[1])
			mk := c.mapHeap(v.GT)
			heapSorts[mk.dom], heapSorts[mk.val], heapSorts[mk.card] = mk.domS, mk.valS, mk.cardS
			return []string{mk.dom, mk.val, mk.card}, v.T, nil
		}
		if name == "maptype" && len(e.Args) == 2 {
			if env == nil {
				return nil, "", fmt.Errorf("maptype needs an environment")
			}
			v := env.tr(e.Args[1])
			mk := c.mapHeap(v.GT)
			heapSorts[mk.dom], heapSorts[mk.val], heapSorts[mk.card] = mk.domS, mk.valS, mk.cardS
			return []string{mk.dom, mk.val, mk.card}, "", nil
		}
	case "sel":
		// T.f (type name) or x.f (value)
		if e.Args[0].Op == "ident" && env != nil {
			if _, isBound := env.bound[e.Args[0].S]; !isBound {
				if obj, ok := env.lookupGo(e.Args[0].S); ok {
					if tn, ok := obj.(*types.TypeName); ok {
						k, as, err := c.fieldKeyOf(tn.Type(), e.S)
						if err != nil {
							return nil, "", err
						}
						heapSorts[k] = as
						return []string{k}, "", nil
					}
				}
			}
		}
		if env != nil {
			cur, t := env.selCursor(e.Args[0])
			if t != nil {
				cur2, f := env.walkSel(cur, t, e.S, e)
				if cur2.isRef {
					ms := newModSet()
					c.addFieldKeys(ms, cur2.owner, cur2.prefix, f)
					var ks []string
					for k, as := range ms.keys {
						heapSorts[k] = as
						ks = append(ks, k)
					}
					sort.Strings(ks)
					return ks, cur2.ref, nil
				}
			}
		}
	}
	return nil, "", fmt.Errorf("cannot resolve modifies item %q", item)
}

func (c *Ctx) fieldKeyOf(t types.Type, field string) (string, Sort, error) {
	if p, ok := t.Underlying().(*types.Pointer); ok {
		t = p.Elem()
	}
	parts := strings.Split(field, ".")
	stt, ok := t.Underlying().(*types.Struct)
	if !ok {
		return "", "", fmt.Errorf("%s is not a struct", t)
	}
	for i := 0; i < stt.NumFields(); i++ {
		if stt.Field(i).Name() == parts[0] {
			fs := c.sortOf(stt.Field(i).Type())
			return fieldKey(t, field), arraySort("Int", fs), nil
		}
	}
	return "", "", fmt.Errorf("no field %s in %s", field, t)
}

// devirtCall: the dynamic type of values of some interfaces is declared (`devirt I => T`): the method of *T
// is inlined from its source, so its nil-safety is derived rather than written by hand.
// devirtTarget resolves an interface method call to the method of the declared dynamic type.
func (c *Ctx) devirtTarget(info *types.Info, call *ast.CallExpr, fn *types.Func) (*FuncInfo, types.Type) {
	sig := fn.Type().(*types.Signature)
	if sig.Recv() == nil {
		return nil, nil
	}
	named, _ := types.Unalias(sig.Recv().Type()).(*types.Named)
	// the static receiver type at the call site decides (the method may be declared in an embedded interface)
	var statNamed *types.Named
	if sel, ok := unparen(call.Fun).(*ast.SelectorExpr); ok {
		if t := info.TypeOf(sel.X); t != nil {
			statNamed, _ = types.Unalias(t).(*types.Named)
		}
	}
	var conc string
	for _, n := range []*types.Named{statNamed, named} {
		if n == nil || n.Obj().Pkg() == nil {
			continue
		}
		full := n.Obj().Pkg().Path() + "." + n.Obj().Name()
		if cn, ok := c.eng.cs.Devirt[c.unit.Pkg.PkgPath+"|"+full]; ok {
			conc = cn
			break
		}
		if cn, ok := c.eng.cs.Devirt[full]; ok {
			conc = cn
			break
		}
	}
	if conc == "" {
		return nil, nil
	}
	ct := c.eng.lookupNamed(conc)
	if ct == nil {
		return nil, nil
	}
	pt := types.NewPointer(ct)
	obj, _, _ := types.LookupFieldOrMethod(pt, true, nil, fn.Name())
	m, ok := obj.(*types.Func)
	if !ok {
		return nil, nil
	}
	fi := c.eng.funcs[m.FullName()]
	if fi == nil {
		return nil, nil
	}
	if !(inlinable(fi.Decl) || c.eng.cs.Inline[m.FullName()]) && c.eng.contractFor(m) == nil {
		return nil, nil
	}
	return fi, ct
}

func (c *Ctx) devirtCall(st *State, call *ast.CallExpr, fn *types.Func, recv *Val, args []Val) ([]Val, bool) {
	fi, ct := c.devirtTarget(c.info, call, fn)
	if fi == nil || st.depth >= 6 {
		return nil, false
	}
	m := fi.Obj
	pt := types.NewPointer(ct)
	if c.prefix == "" && c.unit.Contract != nil && c.unit.Contract.Flags["nilcalls"] {
		c.addObl(st, "nilcall", fmt.Sprintf("nilcall@%s#%d", types.ExprString(call.Fun), c.callOrd[call]), "(not (= (itag "+recv.T+") 0))", "method call "+types.ExprString(call.Fun)+" on a nil interface at "+c.pos(call))
	}
	st.assume("(not (= (itag " + recv.T + ") 0))")
	c.note("devirtualised " + fn.FullName() + " to " + m.FullName() + " (declared dynamic type)")
	// the declared dynamic type: the tag is that of *T
	st.assume(fmt.Sprintf("(= (itag %s) %d)", recv.T, c.eng.typeTag(pt)))
	rv := Val{T: "(iref " + recv.T + ")", S: "Int", GT: pt}
	if mct := c.eng.contractFor(m); mct != nil {
		// the concrete method is under contract: modular call
		return c.modularCall(st, call, m, mct, &rv, args, false), true
	}
	// value-receiver methods of T: load the struct
	msig := m.Type().(*types.Signature)
	if _, isPtr := msig.Recv().Type().Underlying().(*types.Pointer); !isPtr {
		c.addObl(st, "nil", c.ordOf(call.Fun, "nil"), "(not (= "+rv.T+" 0))", "nil dereference for value receiver at "+c.pos(call))
		st.assume("(not (= " + rv.T + " 0))")
		rv = c.cellRead(st, rv.T, ct)
	}
	return c.inlineCall(st, call, fi, &rv, args), true
}

// funcValueContract finds the assumed contract of a call through a function-valued field or parameter.
func (c *Ctx) funcValueContract(call *ast.CallExpr) (*FuncContract, *types.Signature) {
	sig, _ := c.typeOf(call.Fun).Underlying().(*types.Signature)
	if sig == nil {
		return nil, nil
	}
	var key string
	switch x := unparen(call.Fun).(type) {
	case *ast.SelectorExpr:
		if s, ok := c.info.Selections[x]; ok && s.Kind() == types.FieldVal {
			recv := s.Recv()
			if p, ok := recv.Underlying().(*types.Pointer); ok {
				recv = p.Elem()
			}
			key = "field:" + typeName(recv) + "." + x.Sel.Name
		}
	case *ast.Ident:
		if o, ok := c.info.ObjectOf(x).(*types.Var); ok && !o.IsField() {
			key = "param:" + c.unit.Key + "." + x.Name
		}
	}
	if key == "" {
		return nil, nil
	}
	if ct, ok := c.eng.cs.Externs[key]; ok {
		return ct, sig
	}
	return nil, nil
}

// modularCallSig: modular call against an assumed contract when there is no *types.Func (function values).
func (c *Ctx) modularCallSig(st *State, call *ast.CallExpr, ct *FuncContract, sig *types.Signature, short string, recv *Val, args []Val) []Val {
	bound := map[string]Val{}
	for i, a := range args {
		if i < len(ct.ParamName) && ct.ParamName[i] != "_" {
			bound[ct.ParamName[i]] = a
		}
	}
	var cpkg *types.Package
	if ct.PkgPath != "" {
		if p := c.eng.pkgs[ct.PkgPath]; p != nil {
			cpkg = p.Types
		}
	}
	ord := fmt.Sprintf("#%d", c.callOrd[call])
	pre := st.clone()
	env := &SpecEnv{c: c, st: st, bound: bound, pkg: cpkg}
	for i, r := range ct.Requires {
		t, err := env.trBool(r.Expr)
		if err != nil {
			c.abort("contract of %s: requires %d: %v", ct.Key, i+1, err)
			return c.havocResults(st, call, "res")
		}
		nbp := len(c.obls)
		c.addObl(st, "pre", fmt.Sprintf("pre@%s%s.%d", short, ord, i+1), t, fmt.Sprintf("precondition `%s` of %s at %s", r.Src, short, c.pos(call)))
		if len(r.Props) > 0 && len(c.obls) > nbp {
			c.obls[len(c.obls)-1].Props = r.Props
		}
		st.assume(t)
	}
	if !ct.HasMod {
		c.heapHavocAll(st)
	} else {
		for _, item := range ct.Modifies {
			if err := c.applyModifies(st, env, item, nil); err != nil {
				c.abort("contract of %s: modifies %s: %v", ct.Key, item, err)
				return c.havocResults(st, call, "res")
			}
		}
	}
	var results []Val
	for i := 0; i < sig.Results().Len(); i++ {
		results = append(results, c.havoc(st, "r_"+mangle(short), sig.Results().At(i).Type()))
	}
	na := c.fresh("alloc", "Int")
	st.assume("(>= " + na + " " + c.allocCur(st) + ")")
	st.ghost["$alloc"] = Val{T: na, S: "Int"}
	for _, r := range results {
		c.refFact(st, r)
	}
	post := map[string]Val{}
	for k, v := range bound {
		post[k] = v
	}
	bindResults(post, ct.ResName, results)
	env2 := &SpecEnv{c: c, st: st, old: pre, bound: post, pkg: cpkg}
	for i, en := range ct.Ensures {
		t, err := env2.trBool(en.Expr)
		if err != nil {
			c.abort("contract of %s: ensures %d: %v", ct.Key, i+1, err)
			return results
		}
		st.assume(t)
	}
	return results
}

func (c *Ctx) hasLocalDevirt(call *ast.CallExpr, fn *types.Func) bool {
	sig := fn.Type().(*types.Signature)
	var ns []*types.Named
	if n, ok := types.Unalias(sig.Recv().Type()).(*types.Named); ok {
		ns = append(ns, n)
	}
	if sel, ok := unparen(call.Fun).(*ast.SelectorExpr); ok {
		if t := c.typeOf(sel.X); t != nil {
			if n, ok := types.Unalias(t).(*types.Named); ok {
				ns = append(ns, n)
			}
		}
	}
	for _, n := range ns {
		if n.Obj().Pkg() == nil {
			continue
		}
		if _, ok := c.eng.cs.Devirt[c.unit.Pkg.PkgPath+"|"+n.Obj().Pkg().Path()+"."+n.Obj().Name()]; ok {
			return true
		}
	}
	return false
}

// sortOfKey derives the array sort of a raw heap key ("F:pkg.Type.field", "C:<sort>", "G:<ghost>").
func (c *Ctx) sortOfKey(key string) Sort {
	switch {
	case strings.HasPrefix(key, "C:"):
		so := key[2:]
		c.ensureSort(so)
		return arraySort("Int", so)
	case strings.HasPrefix(key, "G:"):
		if _, ok := c.eng.cs.Ghosts[key[2:]]; ok {
			_, as := c.ghostKey(key[2:])
			return as
		}
	case strings.HasPrefix(key, "F:"):
		rest := key[2:]
		i := strings.Index(rest, ".")
		if i < 0 {
			return ""
		}
		j := strings.Index(rest[i+1:], ".")
		if j < 0 {
			return ""
		}
		tn, field := rest[:i+1+j], rest[i+1+j+1:]
		t := c.eng.lookupNamed(tn)
		if t == nil {
			return ""
		}
		parts := strings.Split(field, ".")
		cur := t
		for _, p := range parts {
			stt, ok := cur.Underlying().(*types.Struct)
			if !ok {
				return ""
			}
			found := false
			for k := 0; k < stt.NumFields(); k++ {
				if stt.Field(k).Name() == p {
					cur = stt.Field(k).Type()
					found = true
				}
			}
			if !found {
				return ""
			}
		}
		return arraySort("Int", c.sortOf(cur))
	}
	return ""
}

// trackLock keeps, per path, the mutexes this unit has locked and not yet unlocked (the verifier is sequential,
// so locks have no other meaning here). A lock still held when the unit returns is an obligation failure:
// every later user of that mutex would block for ever.
func (c *Ctx) trackLock(st *State, call *ast.CallExpr, fn *types.Func) {
	if fn.Pkg() == nil || fn.Pkg().Path() != "sync" {
		return
	}
	sel, ok := unparen(call.Fun).(*ast.SelectorExpr)
	if !ok {
		return
	}
	rt := ""
	if r := fn.Type().(*types.Signature).Recv(); r != nil {
		rt = types.TypeString(r.Type(), nil)
	}
	if rt != "*sync.Mutex" && rt != "*sync.RWMutex" && rt != "sync.Locker" {
		return
	}
	key := c.prefix + types.ExprString(sel.X)
	switch fn.Name() {
	case "Lock":
	case "RLock":
		key += " (read)"
	case "Unlock":
		c.unlock(st, key)
		return
	case "RUnlock":
		c.unlock(st, key+" (read)")
		return
	default:
		return
	}
	if st.locks == nil {
		st.locks = map[string]int{}
	}
	st.locks[key]++
}

func (c *Ctx) unlock(st *State, key string) {
	if st.locks[key] > 0 {
		st.locks[key]--
		if st.locks[key] == 0 {
			delete(st.locks, key)
		}
	}
}

func sameLocks(a, b *State) bool {
	if len(a.locks) != len(b.locks) {
		return false
	}
	for k, v := range a.locks {
		if b.locks[k] != v {
			return false
		}
	}
	return true
}
