package main

import (
	"flag"
	"fmt"
	"os"
	"path/filepath"
	"sort"
	"strings"
	"time"
)

func usage() {
	fmt.Fprintln(os.Stderr, `usage:
  govc verify [-repo /repo] [-spec /verif/spec] [-v] [-dump dir] <pkgpath> <funckey>...
  govc check  [-repo /repo] [-tier quick|thorough] <Cnn>
  govc list   [-repo /repo]`)
	os.Exit(2)
}

func main() {
	if len(os.Args) < 2 {
		usage()
	}
	switch os.Args[1] {
	case "verify":
		cmdVerify(os.Args[2:])
	case "check":
		os.Exit(cmdCheck(os.Args[2:]))
	case "list":
		cmdList(os.Args[2:])
	case "replay":
		os.Exit(cmdReplay(os.Args[2:]))
	case "tmpl":
		os.Exit(cmdTmpl(os.Args[2:]))
	case "selftest":
		os.Exit(cmdSelftest(os.Args[2:]))
	default:
		usage()
	}
}

func verifDir() string {
	if d := os.Getenv("VERIF_DIR"); d != "" {
		return d
	}
	return "/verif"
}

// scratchModfile copies go.mod/go.sum of the repo to a scratch directory so that `go list`
// never rewrites /repo/go.mod.
func scratchModfile(repo string) (string, func(), error) {
	d, err := os.MkdirTemp("", "govc-mod-")
	if err != nil {
		return "", nil, err
	}
	for _, f := range []string{"go.mod", "go.sum"} {
		b, err := os.ReadFile(filepath.Join(repo, f))
		if err != nil {
			return "", nil, err
		}
		if err := os.WriteFile(filepath.Join(d, f), b, 0o644); err != nil {
			return "", nil, err
		}
	}
	return filepath.Join(d, "go.mod"), func() { os.RemoveAll(d) }, nil
}

func relPattern(pkgPath string) string {
	if pkgPath == repoMod {
		return "."
	}
	return "./" + strings.TrimPrefix(pkgPath, repoMod+"/")
}

func cmdVerify(args []string) {
	fs := flag.NewFlagSet("verify", flag.ExitOnError)
	repo := fs.String("repo", "/repo", "repository root")
	spec := fs.String("spec", filepath.Join(verifDir(), "spec"), "prelude directory")
	verbose := fs.Bool("v", false, "verbose")
	dump := fs.String("dump", "", "keep SMT files in this directory")
	timeout := fs.Duration("timeout", 10*time.Second, "per-solver timeout")
	fs.Parse(args)
	rest := fs.Args()
	if len(rest) < 2 {
		usage()
	}
	pkgPath := rest[0]
	if !strings.HasPrefix(pkgPath, repoMod) {
		pkgPath = repoMod + "/" + pkgPath
	}
	cs, err := loadContracts(*spec, *repo)
	if err != nil {
		fmt.Fprintln(os.Stderr, "contracts:", err)
		os.Exit(2)
	}
	mf, cleanup, err := scratchModfile(*repo)
	if err != nil {
		fmt.Fprintln(os.Stderr, err)
		os.Exit(2)
	}
	defer cleanup()
	t0 := time.Now()
	eng, err := loadEngine(*repo, mf, []string{relPattern(pkgPath)}, cs)
	if err != nil {
		fmt.Fprintln(os.Stderr, "load:", err)
		os.Exit(2)
	}
	eng.verbose = *verbose
	fmt.Printf("loaded in %.1fs\n", time.Since(t0).Seconds())
	dir := *dump
	if dir == "" {
		dir, _ = os.MkdirTemp("", "govc-smt-")
		defer os.RemoveAll(dir)
	} else {
		os.MkdirAll(dir, 0o755)
	}
	for _, key := range rest[1:] {
		u, err := eng.findUnit(pkgPath, key)
		if err != nil {
			fmt.Println("ERROR", err)
			continue
		}
		r := eng.verifyUnit(u)
		solveAll(dir, r.Obls, *timeout, false, 16)
		printUnit(r, *verbose)
	}
}

func printUnit(r *UnitResult, verbose bool) {
	fmt.Printf("== %s: %d obligation instances, %d paths\n", r.Key, len(r.Obls), r.Paths)
	if r.Aborted != "" {
		fmt.Println("   ABORTED:", r.Aborted)
	}
	byName := map[string][]*Obligation{}
	var names []string
	for _, o := range r.Obls {
		if _, ok := byName[o.Name]; !ok {
			names = append(names, o.Name)
		}
		byName[o.Name] = append(byName[o.Name], o)
	}
	sort.Strings(names)
	for _, n := range names {
		os := byName[n]
		st := "unsat"
		secs := 0.0
		for _, o := range os {
			secs += o.Seconds
			if o.Status != "unsat" {
				st = o.Status
			}
		}
		mark := "ok  "
		if st != "unsat" {
			mark = "FAIL"
		}
		fmt.Printf("   %s %-8s %6.2fs x%d %s\n", mark, st, secs, len(os), strings.TrimPrefix(n, r.Key+"."))
		if st != "unsat" || verbose {
			for _, o := range os {
				if o.Status != "unsat" {
					fmt.Printf("        %s\n        %s\n", o.Desc, strings.ReplaceAll(o.Output, "\n", "\n        "))
					if o.Model != "" && verbose {
						fmt.Printf("        model: %s\n", firstLines(o.Model, 60))
					}
					break
				}
			}
		}
	}
	if verbose {
		for _, n := range r.Notes {
			fmt.Println("   note:", n)
		}
	}
}

func cmdList(args []string) {
	fs := flag.NewFlagSet("list", flag.ExitOnError)
	repo := fs.String("repo", "/repo", "repository root")
	spec := fs.String("spec", filepath.Join(verifDir(), "spec"), "prelude directory")
	fs.Parse(args)
	cs, err := loadContracts(*spec, *repo)
	if err != nil {
		fmt.Fprintln(os.Stderr, "contracts:", err)
		os.Exit(2)
	}
	for _, k := range sortedKeys(cs.Funcs) {
		fmt.Println(k, cs.Funcs[k].Props)
	}
}
