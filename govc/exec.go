package main

import (
	"sort"
	"fmt"
	"go/ast"
	"go/token"
	"go/types"
	"strings"
)

type konts struct {
	next func(*State)
	brk  func(*State)
	cont func(*State)
	ret  func(*State, []Val)
	// retDone: return continuation to use inside `case <-x.Done():` of a select (a listener loop marked
	// `noexit` may still end when its context is cancelled)
	retDone func(*State, []Val)
}

const maxPaths = 4096

// ---------------------------------------------------------------------------
// ordinals (stable names for safety obligations and loops)

type ordTable struct {
	ord    map[ast.Node]string
	loopID map[ast.Node]string
	calls  map[ast.Node]int
}

var ordCache = map[ast.Node]*ordTable{}

func buildOrdinals(body ast.Node, info *types.Info) *ordTable {
	if t, ok := ordCache[body]; ok {
		return t
	}
	t := &ordTable{ord: map[ast.Node]string{}, loopID: map[ast.Node]string{}, calls: map[ast.Node]int{}}
	counts := map[string]int{}
	var curNode ast.Node
	// names are keyed by the expression text, not by position: an unrelated edit elsewhere in the
	// function does not rename an obligation
	next := func(kind string) string {
		txt := ""
		if e, ok := curNode.(ast.Expr); ok {
			txt = types.ExprString(e)
			if len(txt) > 60 {
				txt = txt[:60]
			}
		}
		key := kind + "@" + txt
		counts[key]++
		return fmt.Sprintf("%s#%d", key, counts[key])
	}
	var walk func(n ast.Node, loopPrefix string, loopCount *int)
	walk = func(n ast.Node, loopPrefix string, loopCount *int) {
		ast.Inspect(n, func(m ast.Node) bool {
			if m == nil {
				return false
			}
			curNode = m
			switch x := m.(type) {
			case *ast.FuncLit:
				if ast.Node(x) != body {
					// nested literal: its own numbering space for loops, shared safety ordinals
					cnt := 0
					walk(x.Body, loopPrefix+"L", &cnt)
					return false
				}
			case *ast.ForStmt, *ast.RangeStmt:
				*loopCount++
				id := fmt.Sprintf("%s%d", loopPrefix, *loopCount)
				t.loopID[m] = id
				// children: header expressions are numbered in the current space, body loops nested
				var bodyStmt *ast.BlockStmt
				switch l := m.(type) {
				case *ast.ForStmt:
					if l.Init != nil {
						walk(l.Init, loopPrefix, loopCount)
					}
					if l.Cond != nil {
						walk(l.Cond, loopPrefix, loopCount)
					}
					if l.Post != nil {
						walk(l.Post, loopPrefix, loopCount)
					}
					bodyStmt = l.Body
				case *ast.RangeStmt:
					walk(l.X, loopPrefix, loopCount)
					bodyStmt = l.Body
				}
				cnt := 0
				walk(bodyStmt, id+".", &cnt)
				return false
			case *ast.IndexExpr:
				t.ord[m] = next("bounds")
				if tv, ok := info.Types[x.X]; ok && tv.Type != nil {
					if _, isMap := tv.Type.Underlying().(*types.Map); isMap {
						t.ord[m] = next("mapwrite")
					}
				}
			case *ast.SliceExpr:
				t.ord[m] = next("bounds")
			case *ast.StarExpr:
				t.ord[m] = next("nil")
			case *ast.SelectorExpr:
				t.ord[m] = next("nil")
			case *ast.TypeAssertExpr:
				if x.Type != nil {
					t.ord[m] = next("typeassert")
				}
			case *ast.BinaryExpr:
				if x.Op == token.QUO || x.Op == token.REM {
					t.ord[m] = next("div")
				}
			case *ast.CompositeLit:
				t.ord[m] = next("mapwrite")
			case *ast.CallExpr:
				ck := "call@" + types.ExprString(x.Fun)
				counts[ck]++
				t.calls[m] = counts[ck]
				// conversions and make get their own ordinals (decided by name: cheap and stable)
				if id, ok := x.Fun.(*ast.Ident); ok && id.Name == "make" {
					t.ord[m] = next("make")
				} else if tv, ok := info.Types[x.Fun]; ok && tv.IsType() {
					t.ord[m] = next("conv")
				}
			}
			return true
		})
	}
	cnt := 0
	walk(body, "", &cnt)
	ordCache[body] = t
	return t
}

func (c *Ctx) ordOf(n ast.Node, kind string) string {
	if s, ok := c.ord[n]; ok && strings.HasPrefix(s, kind+"@") {
		return s
	}
	if s, ok := c.ord[n]; ok {
		return kind + "@" + s
	}
	return kind + "#?"
}

// ---------------------------------------------------------------------------

func (c *Ctx) execBlock(st *State, stmts []ast.Stmt, k konts) {
	if c.aborted != "" {
		return
	}
	if len(stmts) == 0 {
		k.next(st)
		return
	}
	k2 := k
	k2.next = func(s *State) { c.execBlock(s, stmts[1:], k) }
	c.exec(st, stmts[0], k2)
}

func (c *Ctx) exec(st *State, s ast.Stmt, k konts) {
	if c.aborted != "" {
		return
	}
	switch x := s.(type) {
	case nil:
		k.next(st)
	case *ast.EmptyStmt:
		k.next(st)
	case *ast.BlockStmt:
		c.execBlock(st, x.List, k)
	case *ast.ExprStmt:
		if call, ok := unparen(x.X).(*ast.CallExpr); ok {
			if id, ok := call.Fun.(*ast.Ident); ok && id.Name == "panic" {
				if _, isB := c.info.ObjectOf(id).(*types.Builtin); isB {
					c.addObl(st, "panic", c.ordOf(call, "panic"), "false", "explicit panic reachable at "+c.pos(call))
					return // path ends
				}
			}
			c.evalCall(st, call)
		} else {
			c.eval(st, x.X)
		}
		k.next(st)
	case *ast.AssignStmt:
		c.execAssign(st, x)
		k.next(st)
	case *ast.IncDecStmt:
		v := c.eval(st, x.X)
		op := "+"
		if x.Tok == token.DEC {
			op = "-"
		}
		c.assignTo(st, x.X, Val{T: "(" + op + " " + v.T + " 1)", S: "Int", GT: v.GT})
		k.next(st)
	case *ast.DeclStmt:
		c.execDecl(st, x)
		k.next(st)
	case *ast.IfStmt:
		if x.Init != nil {
			k2 := k
			k2.next = func(s *State) {
				y := *x
				y.Init = nil
				c.execIf(s, &y, k)
			}
			c.exec(st, x.Init, k2)
			return
		}
		c.execIf(st, x, k)
	case *ast.ForStmt:
		c.execFor(st, x, k)
	case *ast.RangeStmt:
		c.execRange(st, x, k)
	case *ast.SwitchStmt:
		c.execSwitch(st, x, k)
	case *ast.TypeSwitchStmt:
		c.execTypeSwitch(st, x, k)
	case *ast.SelectStmt:
		c.execSelect(st, x, k)
	case *ast.ReturnStmt:
		c.execReturn(st, x, k)
	case *ast.BranchStmt:
		if x.Label != nil {
			c.abort("labelled branch at %s not supported", c.pos(x))
			return
		}
		switch x.Tok {
		case token.BREAK:
			if k.brk == nil {
				c.abort("break outside loop at %s", c.pos(x))
				return
			}
			k.brk(st)
		case token.CONTINUE:
			if k.cont == nil {
				c.abort("continue outside loop at %s", c.pos(x))
				return
			}
			k.cont(st)
		default:
			c.abort("%s at %s not supported", x.Tok, c.pos(x))
		}
	case *ast.LabeledStmt:
		c.exec(st, x.Stmt, k)
	case *ast.DeferStmt:
		st.defers = append(st.defers, deferred{call: x.Call})
		k.next(st)
	case *ast.GoStmt:
		if fl, ok := unparen(x.Call.Fun).(*ast.FuncLit); ok && c.inlineGo(fl) {
			// (a) `go` + WaitGroup.Wait() in the same function, body under one mutex: executed in place, once
			// per spawn (an arbitrary but sequential order) — stated abstraction
			c.note("go func literal executed in place (flag inline-go): goroutines of this loop are serialised by a mutex and awaited before the function continues")
			i := 0
			for _, fld := range fl.Type.Params.List {
				for _, n := range fld.Names {
					if o, ok := c.info.Defs[n].(*types.Var); ok && i < len(x.Call.Args) {
						c.declareVar(st, n, c.evalAs(st, x.Call.Args[i], o.Type()))
					}
					i++
				}
			}
			saved := st.defers
			st.defers = nil
			fin := func(s *State) {
				c.runDefers(s, func(s2 *State) {
					s2.defers = saved
					k.next(s2)
				})
			}
			kk := konts{next: fin, ret: func(s *State, _ []Val) { fin(s) }}
			c.execBlock(st, fl.Body.List, kk)
			return
		}
		c.execGo(st, x)
		k.next(st)
	case *ast.SendStmt:
		ch := c.eval(st, x.Chan)
		v := c.evalAs(st, x.Value, elemType(ch.GT))
		c.ghostSend(st, ch, v)
		c.pointClauses(st, "after send "+types.ExprString(x.Chan), x.End())
		k.next(st)
	default:
		c.abort("unsupported statement %T at %s", s, c.pos(s))
	}
}

// ghostSend records a send on the ghost sequence sent(ch).
func (c *Ctx) ghostSend(st *State, ch Val, v Val) {
	es := v.S
	key := "G:sent:" + mangle(es)
	as := arraySort("Int", c.seqSort(es))
	h := c.heapRead(st, key, as)
	cur := sel(h, ch.T)
	m := mangle(es)
	nw := fmt.Sprintf("(mkQ_%s (+ (qlen_%s %s) 1) (store (qarr_%s %s) (qlen_%s %s) %s))", m, m, cur, m, cur, m, cur, v.T)
	c.heapSet(st, key, as, store(h, ch.T, nw))
}

// seqSort: ghost sequences (len, arr)
func (c *Ctx) seqSort(elem Sort) Sort {
	c.ensureSort(elem)
	m := mangle(elem)
	name := "Seq_" + m
	seqElem[name] = elem
	c.decl("sort:"+name, fmt.Sprintf("(declare-datatypes ((%s 0)) (((mkQ_%s (qlen_%s Int) (qarr_%s (Array Int %s))))))", name, m, m, m, elem))
	return name
}

func (c *Ctx) execIf(st *State, x *ast.IfStmt, k konts) {
	cond := c.eval(st, x.Cond)
	if cond.T != "true" && cond.T != "false" && c.simpleBranch(x.Body) && (x.Else == nil || c.simpleBranch(x.Else)) {
		if merged := c.mergeIf(st, x, cond.T); merged != nil {
			k.next(merged)
			return
		}
	}
	if cond.T != "false" {
		s1 := st.clone()
		s1.assume(cond.T)
		c.execBlock(s1, x.Body.List, k)
	}
	if cond.T != "true" {
		s2 := st
		s2.assume(not(cond.T))
		if x.Else != nil {
			c.exec(s2, x.Else, k)
		} else {
			k.next(s2)
		}
	}
}

// simpleBranch: straight-line code (assignments, calls, nested simple ifs) that always falls through.
func (c *Ctx) simpleBranch(n ast.Stmt) bool {
	ok := true
	ast.Inspect(n, func(m ast.Node) bool {
		switch y := m.(type) {
		case *ast.ReturnStmt, *ast.BranchStmt, *ast.LabeledStmt, *ast.GoStmt, *ast.DeferStmt, *ast.ForStmt,
			*ast.RangeStmt, *ast.SelectStmt, *ast.SwitchStmt, *ast.TypeSwitchStmt, *ast.FuncLit, *ast.SendStmt:
			ok = false
		case *ast.CallExpr:
			if id, isId := unparen(y.Fun).(*ast.Ident); isId && id.Name == "panic" {
				ok = false
			}
		}
		return ok
	})
	return ok
}

// mergeIf executes both branches of a simple if and joins the two resulting states with if-then-else terms
// (no path split). Returns nil when the states cannot be joined (a branch havoc'd the whole heap, aborted...).
func (c *Ctx) mergeIf(st *State, x *ast.IfStmt, cond string) *State {
	base := len(st.pc)
	run := func(s *State, body ast.Stmt) *State {
		var out *State
		n := 0
		kk := konts{next: func(r *State) { out = r; n++ }}
		c.exec(s, body, kk)
		if n != 1 {
			return nil
		}
		return out
	}
	savedAbort := c.aborted
	s1 := st.clone()
	s1.assume(cond)
	r1 := run(s1, x.Body)
	s2 := st.clone()
	s2.assume(not(cond))
	r2 := s2
	if x.Else != nil {
		r2 = run(s2, x.Else)
	}
	if r1 != nil && r2 != nil && !sameLocks(r1, r2) {
		return nil
	}
	if r1 == nil || r2 == nil || c.aborted != savedAbort || r1.epoch != st.epoch || r2.epoch != st.epoch {
		if r1 != nil && r2 != nil && c.aborted == savedAbort {
			c.note("if-merge gave up (a branch havocs the whole heap) at " + c.pos(x))
		}
		return nil
	}
	for k2 := range r1.heap {
		if strings.HasPrefix(k2, "\x00ep:") {
			return nil
		}
	}
	for k2 := range r2.heap {
		if strings.HasPrefix(k2, "\x00ep:") {
			return nil
		}
	}
	m := st.clone()
	m.locks = r1.clone().locks
	m.pc = m.pc[:base]
	// guarded facts of each branch
	for _, p := range r1.pc[base+1:] {
		m.assume(implies(cond, p))
	}
	for _, p := range r2.pc[base+1:] {
		m.assume(implies(not(cond), p))
	}
	ite := func(prefix string, a, b Val) Val {
		if a.T == b.T {
			return a
		}
		n := c.fresh(prefix, a.S)
		m.assume("(= " + n + " (ite " + cond + " " + a.T + " " + b.T + "))")
		return Val{T: n, S: a.S, GT: a.GT}
	}
	for _, o := range sortedObjs(st.vars) {
		v0 := st.vars[o]
		a, ok1 := r1.vars[o]
		b, ok2 := r2.vars[o]
		if !ok1 {
			a = v0
		}
		if !ok2 {
			b = v0
		}
		if a.S != b.S {
			return nil
		}
		m.vars[o] = ite("m_"+o.Name(), a, b)
	}
	// variables first read (havoc'd as free) inside a branch only are dropped
	for o, v := range r1.cells {
		m.cells[o] = v
	}
	for o, v := range r2.cells {
		m.cells[o] = v
	}
	keys := map[string]bool{}
	for k2 := range r1.heap {
		keys[k2] = true
	}
	for k2 := range r2.heap {
		keys[k2] = true
	}
	for _, k2 := range sortedKeys(keys) {
		as, ok := heapSorts[k2]
		if !ok {
			c.note("if-merge gave up: unknown sort of heap key " + k2)
			return nil
		}
		a := c.heapRead(r1, k2, as)
		b := c.heapRead(r2, k2, as)
		if a == b {
			m.heap[k2] = a
			continue
		}
		n := c.fresh("H!"+mangle(k2), as)
		m.assume("(= " + n + " (ite " + cond + " " + a + " " + b + "))")
		m.heap[k2] = n
	}
	gk := map[string]bool{}
	for g := range r1.ghost {
		gk[g] = true
	}
	for g := range r2.ghost {
		gk[g] = true
	}
	for _, g := range sortedKeys(gk) {
		a, ok1 := r1.ghost[g]
		b, ok2 := r2.ghost[g]
		if !ok1 || !ok2 {
			if strings.HasPrefix(g, "spawned_") {
				if !ok1 {
					a = Val{T: "0", S: "Int"}
				}
				if !ok2 {
					b = Val{T: "0", S: "Int"}
				}
			} else if ok1 {
				m.ghost[g] = a
				continue
			} else {
				m.ghost[g] = b
				continue
			}
		}
		if a.S != b.S {
			return nil
		}
		m.ghost[g] = ite("mg", a, b)
	}
	return m
}

func (c *Ctx) execDecl(st *State, x *ast.DeclStmt) {
	gd, ok := x.Decl.(*ast.GenDecl)
	if !ok || gd.Tok != token.VAR {
		return
	}
	for _, sp := range gd.Specs {
		vs := sp.(*ast.ValueSpec)
		if len(vs.Values) == 1 && len(vs.Names) > 1 {
			call, _ := unparen(vs.Values[0]).(*ast.CallExpr)
			if call != nil {
				rs := c.evalCall(st, call)
				for i, n := range vs.Names {
					if i < len(rs) {
						c.declareVar(st, n, rs[i])
					}
				}
				continue
			}
		}
		for i, n := range vs.Names {
			o, _ := c.info.Defs[n].(*types.Var)
			if o == nil {
				continue
			}
			var v Val
			if i < len(vs.Values) {
				v = c.evalAs(st, vs.Values[i], o.Type())
			} else {
				v = c.zero(o.Type())
			}
			c.declareVar(st, n, v)
		}
	}
}

// declareVar introduces a local (boxing it when its address is taken).
func (c *Ctx) declareVar(st *State, id *ast.Ident, v Val) {
	if id.Name == "_" {
		return
	}
	o, _ := c.info.Defs[id].(*types.Var)
	if o == nil {
		// redeclaration in := with at least one new var
		if u, ok := c.info.Uses[id].(*types.Var); ok {
			c.writeVar(st, u, c.convertTo(st, v, u.Type()))
		}
		return
	}
	v = c.named(st, "v_"+o.Name(), c.convertTo(st, v, o.Type()))
	if c.boxed[o] {
		ref := c.alloc(st)
		st.cells[o] = ref
		c.cellWrite(st, ref, o.Type(), v)
		return
	}
	v.GT = o.Type()
	st.vars[o] = v
}

// ---- slice aliasing -------------------------------------------------------------------------------------
// Slices are modelled as values, but `x = y[a:b]` shares y's backing array: appending to x (within y's
// capacity) or assigning x[i] writes into y. The treatment is a flow-insensitive over-approximation: any two
// local slice variables related by a re-slice anywhere in the unit are partners; a write through one leaves
// the ELEMENTS of its partners unknown (their length is kept). Code that only reads re-slices is unaffected.

func (c *Ctx) aliasPartners(o types.Object) []types.Object {
	if c.aliases == nil {
		c.aliases = map[types.Object][]types.Object{}
		var body ast.Node
		if c.unit.Lit != nil {
			body = c.unit.Lit.Body
		} else if c.unit.Decl != nil {
			body = c.unit.Decl.Body
		}
		if body != nil {
			link := func(a, b types.Object) {
				if a == nil || b == nil || a == b {
					return
				}
				c.aliases[a] = append(c.aliases[a], b)
				c.aliases[b] = append(c.aliases[b], a)
			}
			ast.Inspect(body, func(n ast.Node) bool {
				as, ok := n.(*ast.AssignStmt)
				if !ok || len(as.Lhs) != len(as.Rhs) {
					return true
				}
				for i, r := range as.Rhs {
					se, ok := unparen(r).(*ast.SliceExpr)
					if !ok {
						continue
					}
					if _, isSlice := c.unit.Pkg.TypesInfo.TypeOf(se.X).Underlying().(*types.Slice); !isSlice {
						continue
					}
					bid, ok1 := unparen(se.X).(*ast.Ident)
					lid, ok2 := unparen(as.Lhs[i]).(*ast.Ident)
					if ok1 && ok2 {
						link(c.unit.Pkg.TypesInfo.ObjectOf(lid), c.unit.Pkg.TypesInfo.ObjectOf(bid))
					}
				}
				return true
			})
		}
	}
	return c.aliases[o]
}

// writeThrough is called after an element write / append through the slice variable held in lhs.
func (c *Ctx) writeThrough(st *State, lhs ast.Expr) {
	if c.prefix != "" {
		return
	}
	id, ok := unparen(lhs).(*ast.Ident)
	if !ok {
		return
	}
	o := c.info.ObjectOf(id)
	for _, p := range c.aliasPartners(o) {
		pv, ok := p.(*types.Var)
		if !ok {
			continue
		}
		cur := c.readVar(st, pv)
		if !isSliceSort(cur.S) {
			continue
		}
		nv := c.havoc(st, "aliased_"+pv.Name(), pv.Type())
		st.assume("(= " + sLen(nv) + " " + sLen(cur) + ")")
		c.writeVar(st, pv, nv)
		c.note("write through " + id.Name + " may reach the backing array of " + pv.Name() + " (re-slice): its elements are unknown afterwards")
	}
}

func (c *Ctx) execAssign(st *State, x *ast.AssignStmt) {
	define := x.Tok == token.DEFINE
	defer func() {
		// element writes and appends through a re-sliced variable reach its partners
		for i, l := range x.Lhs {
			if ie, ok := unparen(l).(*ast.IndexExpr); ok {
				c.writeThrough(st, ie.X)
				continue
			}
			if i < len(x.Rhs) {
				if call, ok := unparen(x.Rhs[i]).(*ast.CallExpr); ok {
					if fid, ok := unparen(call.Fun).(*ast.Ident); ok && fid.Name == "append" && len(call.Args) > 0 {
						c.writeThrough(st, call.Args[0])
					}
				}
			}
		}
	}()
	// op-assignments
	if x.Tok != token.ASSIGN && x.Tok != token.DEFINE {
		var op token.Token
		switch x.Tok {
		case token.ADD_ASSIGN:
			op = token.ADD
		case token.SUB_ASSIGN:
			op = token.SUB
		case token.MUL_ASSIGN:
			op = token.MUL
		case token.QUO_ASSIGN:
			op = token.QUO
		case token.REM_ASSIGN:
			op = token.REM
		default:
			c.note("unsupported assignment operator " + x.Tok.String())
			c.assignTo(st, x.Lhs[0], c.havoc(st, "opassign", c.typeOf(x.Lhs[0])))
			return
		}
		l := c.eval(st, x.Lhs[0])
		r := c.eval(st, x.Rhs[0])
		var res Val
		if l.S == "Str" {
			c.declFun("concat!Str", []Sort{"Str", "Str"}, "Str")
			res = Val{T: "(concat!Str " + l.T + " " + r.T + ")", S: "Str", GT: l.GT}
		} else {
			sym := map[token.Token]string{token.ADD: "+", token.SUB: "-", token.MUL: "*"}[op]
			if sym == "" {
				res = Val{T: c.goDiv(l.T, r.T), S: "Int", GT: l.GT}
			} else {
				res = Val{T: "(" + sym + " " + l.T + " " + r.T + ")", S: l.S, GT: l.GT}
			}
		}
		c.assignTo(st, x.Lhs[0], res)
		return
	}
	set := func(lhs ast.Expr, v Val) {
		if id, ok := lhs.(*ast.Ident); ok && define {
			c.declareVar(st, id, v)
			return
		}
		c.assignTo(st, lhs, v)
	}
	if len(x.Lhs) > 1 && len(x.Rhs) == 1 {
		rhs := unparen(x.Rhs[0])
		switch r := rhs.(type) {
		case *ast.CallExpr:
			rs := c.evalCall(st, r)
			for i, l := range x.Lhs {
				if i < len(rs) {
					set(l, rs[i])
				} else {
					set(l, c.havoc(st, "res", c.typeOf(l)))
				}
			}
			return
		case *ast.IndexExpr: // v, ok := m[k]
			mt := c.typeOf(r.X).Underlying().(*types.Map)
			m := c.eval(st, r.X)
			kv := c.evalAs(st, r.Index, mt.Key())
			v, ok := c.mapRead(st, m, kv)
			set(x.Lhs[0], v)
			set(x.Lhs[1], Val{T: ok, S: "Bool", GT: types.Typ[types.Bool]})
			return
		case *ast.TypeAssertExpr: // v, ok := x.(T)
			iv := c.eval(st, r.X)
			t := c.typeOf(r.Type)
			okT := c.hasDynType(iv, t)
			z := c.zero(t)
			u := c.unbox(iv, t)
			for _, f := range c.typeFacts(u) {
				st.assume(implies(okT, f))
			}
			set(x.Lhs[0], Val{T: "(ite " + okT + " " + u.T + " " + z.T + ")", S: z.S, GT: t})
			set(x.Lhs[1], Val{T: okT, S: "Bool", GT: types.Typ[types.Bool]})
			return
		case *ast.UnaryExpr: // v, ok := <-ch
			c.eval(st, r.X)
			set(x.Lhs[0], c.havoc(st, "recv", c.typeOf(x.Lhs[0])))
			set(x.Lhs[1], c.havoc(st, "recvok", types.Typ[types.Bool]))
			return
		}
		c.abort("unsupported tuple assignment at %s", c.pos(x))
		return
	}
	// parallel assignment: evaluate all right sides first
	vals := make([]Val, len(x.Rhs))
	for i, r := range x.Rhs {
		var target types.Type
		if i < len(x.Lhs) {
			if id, ok := x.Lhs[i].(*ast.Ident); ok && id.Name == "_" {
				target = nil
			} else {
				target = c.typeOf(x.Lhs[i])
			}
		}
		if cl, ok := unparen(r).(*ast.CompositeLit); ok && target == nil {
			vals[i] = c.evalComposite(st, cl, false)
		} else {
			vals[i] = c.evalAs(st, r, target)
		}
	}
	for i, l := range x.Lhs {
		set(l, vals[i])
	}
}

// assignTo stores v into an addressable expression.
func (c *Ctx) assignTo(st *State, lhs ast.Expr, v Val) {
	lhs = unparen(lhs)
	switch x := lhs.(type) {
	case *ast.Ident:
		if x.Name == "_" {
			return
		}
		if o, ok := c.info.ObjectOf(x).(*types.Var); ok {
			if o.Pkg() != nil && o.Parent() == o.Pkg().Scope() {
				c.note("assignment to package-level variable ignored: " + x.Name)
				return
			}
			c.writeVar(st, o, c.convertTo(st, v, o.Type()))
		}
	case *ast.SelectorExpr:
		s, ok := c.info.Selections[x]
		if !ok || s.Kind() != types.FieldVal {
			c.note("assignment to package-level variable ignored: " + types.ExprString(x))
			return
		}
		cur, f := c.walkToField(st, x, s)
		v = c.convertTo(st, v, f.Type())
		if cur.isRef {
			c.fieldWrite(st, cur.ref, cur.owner, cur.prefix, f, v)
			return
		}
		// field of a struct value held in a local variable: rebuild the value
		if id, ok := unparen(x.X).(*ast.Ident); ok {
			if o, ok := c.info.ObjectOf(id).(*types.Var); ok && isStructVal(o.Type()) {
				old := c.readVar(st, o)
				stt := o.Type().Underlying().(*types.Struct)
				var vs []string
				for i := 0; i < stt.NumFields(); i++ {
					g := stt.Field(i)
					gs := c.sortOf(g.Type())
					if g == f {
						vs = append(vs, v.T)
					} else {
						vs = append(vs, c.fldApp(old.S, g.Name(), gs, old.T))
					}
				}
				nv := Val{T: mkStruct(old.S, vs), S: old.S, GT: old.GT}
				c.writeVar(st, o, nv)
				return
			}
		}
		c.note("assignment to field of a temporary struct value ignored: " + types.ExprString(x))
	case *ast.IndexExpr:
		bt := c.typeOf(x.X)
		switch u := bt.Underlying().(type) {
		case *types.Map:
			m := c.eval(st, x.X)
			k := c.evalAs(st, x.Index, u.Key())
			c.mapWrite(st, m, k, c.convertTo(st, v, u.Elem()), x)
		case *types.Slice, *types.Array:
			s := c.eval(st, x.X)
			i := c.eval(st, x.Index)
			goal := and("(<= 0 "+i.T+")", "(< "+i.T+" "+sLen(s)+")")
			c.addObl(st, "bounds", c.ordOf(x, "bounds"), goal, "index "+types.ExprString(x)+" in range (assignment) at "+c.pos(x))
			st.assume(goal)
			v = c.convertTo(st, v, elemType(bt))
			ns := Val{T: mkSl(s.S, sOff(s), sLen(s), store(sArr(s), plus(sOff(s), i.T), v.T), sNil(s)), S: s.S, GT: s.GT}
			// write back into the variable / field that holds the slice header (backing array
			// sharing between different headers is not modelled)
			c.note("slice element assignment updates the named slice only (no backing-array aliasing)")
			c.assignTo(st, x.X, ns)
		default:
			c.note("unsupported indexed assignment")
		}
	case *ast.StarExpr:
		p := c.eval(st, x.X)
		c.addObl(st, "nil", c.ordOf(x, "nil"), "(not (= "+p.T+" 0))", "nil dereference (assignment) at "+c.pos(x))
		st.assume("(not (= " + p.T + " 0))")
		t := elemType(p.GT)
		c.cellWrite(st, p.T, t, c.convertTo(st, v, t))
	default:
		c.note(fmt.Sprintf("unsupported assignment target %T", lhs))
	}
}

// ---------------------------------------------------------------------------
// switch / select

func (c *Ctx) execSwitch(st *State, x *ast.SwitchStmt, k konts) {
	run := func(st *State) {
		var tag *Val
		if x.Tag != nil {
			v := c.eval(st, x.Tag)
			tag = &v
		}
		kb := k
		kb.brk = k.next
		var negs []string
		var deflt *ast.CaseClause
		for _, cl := range x.Body.List {
			cc := cl.(*ast.CaseClause)
			if cc.List == nil {
				deflt = cc
				continue
			}
			var alts []string
			s1 := st.clone()
			for _, n := range negs {
				s1.assume(n)
			}
			for _, e := range cc.List {
				if tag != nil {
					ev := c.evalAs(s1, e, tag.GT)
					alts = append(alts, eq(tag.T, ev.T))
				} else {
					alts = append(alts, c.eval(s1, e).T)
				}
			}
			cond := or(alts...)
			s1.assume(cond)
			for _, b := range cc.Body {
				if br, ok := b.(*ast.BranchStmt); ok && br.Tok == token.FALLTHROUGH {
					c.abort("fallthrough not supported at %s", c.pos(br))
					return
				}
			}
			c.execBlock(s1, cc.Body, kb)
			negs = append(negs, not(cond))
		}
		s2 := st.clone()
		for _, n := range negs {
			s2.assume(n)
		}
		if deflt != nil {
			c.execBlock(s2, deflt.Body, kb)
		} else {
			k.next(s2)
		}
	}
	if x.Init != nil {
		k2 := k
		k2.next = run
		c.exec(st, x.Init, k2)
		return
	}
	run(st)
}

func (c *Ctx) execTypeSwitch(st *State, x *ast.TypeSwitchStmt, k konts) {
	if x.Init != nil {
		c.abort("type switch with init not supported at %s", c.pos(x))
		return
	}
	var subject ast.Expr
	switch a := x.Assign.(type) {
	case *ast.AssignStmt:
		subject = a.Rhs[0].(*ast.TypeAssertExpr).X
	case *ast.ExprStmt:
		subject = a.X.(*ast.TypeAssertExpr).X
	}
	iv := c.eval(st, subject)
	kb := k
	kb.brk = k.next
	var negs []string
	var deflt *ast.CaseClause
	bind := func(s *State, cc *ast.CaseClause, t types.Type) {
		if o, ok := c.info.Implicits[cc].(*types.Var); ok {
			var v Val
			if t == nil {
				v = Val{T: iv.T, S: iv.S, GT: o.Type()}
			} else {
				v = c.unbox(iv, t)
				v.GT = o.Type()
			}
			for _, f := range c.typeFacts(v) {
				s.assume(f)
			}
			s.vars[o] = v
		}
	}
	for _, cl := range x.Body.List {
		cc := cl.(*ast.CaseClause)
		if cc.List == nil {
			deflt = cc
			continue
		}
		var alts []string
		var single types.Type
		for _, e := range cc.List {
			if tv, ok := c.info.Types[e]; ok && tv.IsNil() {
				alts = append(alts, "(= (itag "+iv.T+") 0)")
				continue
			}
			t := c.typeOf(e)
			alts = append(alts, c.hasDynType(iv, t))
			single = t
		}
		if len(cc.List) != 1 {
			single = nil
		}
		cond := or(alts...)
		s1 := st.clone()
		for _, n := range negs {
			s1.assume(n)
		}
		s1.assume(cond)
		bind(s1, cc, single)
		c.pointClauses(s1, "case "+types.ExprString(cc.List[0]), cc.Colon+1)
		c.execBlock(s1, cc.Body, kb)
		negs = append(negs, not(cond))
	}
	s2 := st.clone()
	for _, n := range negs {
		s2.assume(n)
	}
	if deflt != nil {
		bind(s2, deflt, nil)
		c.execBlock(s2, deflt.Body, kb)
	} else {
		k.next(s2)
	}
}

func (c *Ctx) execSelect(st *State, x *ast.SelectStmt, k konts) {
	kb := k
	kb.brk = k.next
	c.note("select: nondeterministic choice among cases")
	for _, cl := range x.Body.List {
		cc := cl.(*ast.CommClause)
		s1 := st.clone()
		kb := kb
		if isDoneRecv(cc.Comm) && k.retDone != nil {
			kb.ret = k.retDone
		}
		if cc.Comm != nil {
			k2 := kb
			body := cc.Body
			k2.next = func(s *State) { c.execBlock(s, body, kb) }
			c.exec(s1, cc.Comm, k2)
		} else {
			c.execBlock(s1, cc.Body, kb)
		}
	}
}

// ---------------------------------------------------------------------------
// return, defers, postconditions

func (c *Ctx) execReturn(st *State, x *ast.ReturnStmt, k konts) {
	var vals []Val
	if len(x.Results) == 1 {
		if call, ok := unparen(x.Results[0]).(*ast.CallExpr); ok {
			if tup, ok := c.typeOf(call).(*types.Tuple); ok && tup.Len() > 1 {
				vals = c.evalCall(st, call)
				k.ret(st, vals)
				return
			}
		}
	}
	for _, r := range x.Results {
		vals = append(vals, c.eval(st, r))
	}
	k.ret(st, vals)
}

func (c *Ctx) execGo(st *State, x *ast.GoStmt) {
	// (b) fire-and-forget: the call's precondition is asserted at the spawn point, effects are not applied.
	c.note("go statement: arguments evaluated, callee precondition asserted at the spawn point, effects not applied (sequential abstraction)")
	if fl, ok := unparen(x.Call.Fun).(*ast.FuncLit); ok {
		for _, a := range x.Call.Args {
			c.eval(st, a)
		}
		_ = fl
		return
	}
	s2 := st.clone()
	c.evalCallMode(s2, x.Call, true)
	// keep only obligations; discard s2's effects. A ghost counter records that the call was spawned.
	name := "spawned_" + lastName(x.Call.Fun)
	cur := "0"
	if v, ok := st.ghost[name]; ok {
		cur = v.T
	}
	st.ghost[name] = Val{T: "(+ " + cur + " 1)", S: "Int"}
}

func lastName(e ast.Expr) string {
	switch x := unparen(e).(type) {
	case *ast.SelectorExpr:
		return x.Sel.Name
	case *ast.Ident:
		return x.Name
	}
	return "func"
}

// isDoneRecv: `<-x.Done()` (possibly assigned)
func isDoneRecv(s ast.Stmt) bool {
	var e ast.Expr
	switch x := s.(type) {
	case *ast.ExprStmt:
		e = x.X
	case *ast.AssignStmt:
		if len(x.Rhs) == 1 {
			e = x.Rhs[0]
		}
	}
	u, ok := unparen(e).(*ast.UnaryExpr)
	if !ok || u.Op != token.ARROW {
		return false
	}
	call, ok := unparen(u.X).(*ast.CallExpr)
	if !ok {
		return false
	}
	sel, ok := unparen(call.Fun).(*ast.SelectorExpr)
	return ok && sel.Sel.Name == "Done"
}

// inlineGo: is this function literal marked `flag inline-go$k` in the unit's contract?
func (c *Ctx) inlineGo(fl *ast.FuncLit) bool {
	if c.prefix != "" || c.unit.Contract == nil {
		return false
	}
	var body ast.Node
	if c.unit.Lit != nil {
		body = c.unit.Lit.Body
	} else {
		body = c.unit.Decl.Body
	}
	for i, l := range funcLitsOf(body) {
		if l == fl {
			return c.unit.Contract.Flags[fmt.Sprintf("inline-go$%d", i+1)]
		}
	}
	return false
}

func sortedObjs(m map[types.Object]Val) []types.Object {
	out := make([]types.Object, 0, len(m))
	for o := range m {
		out = append(out, o)
	}
	sort.Slice(out, func(i, j int) bool {
		if out[i].Pos() != out[j].Pos() {
			return out[i].Pos() < out[j].Pos()
		}
		return out[i].Name() < out[j].Name()
	})
	return out
}
