package main

import (
	"fmt"
	"go/ast"
	"go/constant"
	"go/token"
	"go/types"
	"math/big"
	"strings"
)

// ---------------------------------------------------------------------------
// slices: (soff, slen, sarr, snil)

func (c *Ctx) sliceSortOf(elem Sort) Sort {
	c.ensureSort(elem)
	m := mangle(elem)
	name := "Slice_" + m
	sliceElem[name] = elem
	c.decl("sort:"+name, fmt.Sprintf("(declare-datatypes ((%s 0)) (((mkS_%s (slen_%s Int) (sarr_%s (Array Int %s)) (snil_%s Bool)))))", name, m, m, m, elem, m))
	return name
}

// slices always start at index 0 of their array: arithmetic inside select terms makes
// quantifier triggers unreliable, so re-slicing with a non-zero lower bound copies (see evalSliceExpr)
func sOff(v Val) string { return "0" }
func mkSl(s Sort, off, ln, arr, isnil string) string {
	return "(mkS_" + s[len("Slice_"):] + " " + ln + " " + arr + " " + isnil + ")"
}
func sAt(v Val, i string) string {
	return sel(sArr(v), plus(sOff(v), i))
}
func plus(a, b string) string {
	if a == "0" {
		return b
	}
	if b == "0" {
		return a
	}
	return "(+ " + a + " " + b + ")"
}
func minus(a, b string) string {
	if b == "0" {
		return a
	}
	return "(- " + a + " " + b + ")"
}

// ---------------------------------------------------------------------------

func (c *Ctx) typeOf(e ast.Expr) types.Type {
	if tv, ok := c.info.Types[e]; ok {
		return tv.Type
	}
	if id, ok := e.(*ast.Ident); ok {
		if o := c.info.ObjectOf(id); o != nil {
			return o.Type()
		}
	}
	return nil
}

func (c *Ctx) abort(format string, a ...interface{}) {
	if c.aborted == "" {
		c.aborted = fmt.Sprintf(format, a...)
	}
}

// zero value of a Go type
func (c *Ctx) zero(t types.Type) Val {
	s := c.sortOf(t)
	v := Val{S: s, GT: t}
	switch {
	case s == "Int":
		v.T = "0"
	case s == "Bool":
		v.T = "false"
	case s == "Real":
		v.T = "0.0"
	case s == "Str":
		v.T = c.strLit("")
	case s == "Iface":
		v.T = "(mkI 0 0)"
	case isSliceSort(s):
		el := sliceElemSort(s)
		v.T = mkSl(s, "0", "0", c.constArr("Int", el, c.zeroOfSort(el, elemType(t))), "true")
	default:
		// struct value: constructor applied to zero fields
		if stt, ok := t.Underlying().(*types.Struct); ok {
			var vs []string
			for i := 0; i < stt.NumFields(); i++ {
				vs = append(vs, c.zero(stt.Field(i).Type()).T)
			}
			v.T = mkStruct(s, vs)
		} else {
			n := "zero!" + s
			c.ensureSort(s)
			c.decl("const:"+n, fmt.Sprintf("(declare-const %s %s)", n, s))
			v.T = n
		}
	}
	return v
}

func elemType(t types.Type) types.Type {
	switch u := t.Underlying().(type) {
	case *types.Slice:
		return u.Elem()
	case *types.Array:
		return u.Elem()
	case *types.Pointer:
		return u.Elem()
	case *types.Map:
		return u.Elem()
	case *types.Chan:
		return u.Elem()
	}
	return nil
}

func (c *Ctx) zeroOfSort(s Sort, t types.Type) string {
	if t != nil {
		return c.zero(t).T
	}
	switch {
	case s == "Int":
		return "0"
	case s == "Bool":
		return "false"
	case s == "Str":
		return c.strLit("")
	case s == "Iface":
		return "(mkI 0 0)"
	case isSliceSort(s):
		el := sliceElemSort(s)
		return mkSl(s, "0", "0", c.constArr("Int", el, c.zeroOfSort(el, nil)), "true")
	}
	n := "zero!" + mangle(s)
	c.ensureSort(s)
	c.decl("const:"+n, fmt.Sprintf("(declare-const %s %s)", n, s))
	return n
}

func (c *Ctx) constArr(k, v Sort, val string) string {
	return fmt.Sprintf("((as const (Array %s %s)) %s)", k, v, val)
}

// field accessor on struct values
func (c *Ctx) fldApp(structSort Sort, field string, fs Sort, v string) string {
	if field == "_" {
		if u := structTypes[structSort]; u != nil {
			for i := 0; i < u.NumFields(); i++ {
				if u.Field(i).Name() == "_" {
					field = fmt.Sprintf("blank%d", i)
					break
				}
			}
		}
	}
	return "(fld!" + structSort + "!" + field + " " + v + ")"
}

// havoc produces a fresh value of Go type t with its type facts assumed.
func (c *Ctx) havoc(st *State, prefix string, t types.Type) Val {
	s := c.sortOf(t)
	v := Val{T: c.fresh(prefix, s), S: s, GT: t}
	for _, f := range c.typeFacts(v) {
		st.assume(f)
	}
	return v
}

// alloc returns a fresh non-nil reference distinct from all earlier ones.
func (c *Ctx) alloc(st *State) string {
	r := c.fresh("ref", "Int")
	cur := c.allocCur(st)
	st.assume(fmt.Sprintf("(= %s %s)", r, cur))
	st.assume(fmt.Sprintf("(> %s 0)", r))
	n := c.fresh("alloc", "Int")
	st.assume(fmt.Sprintf("(= %s (+ %s 1))", n, cur))
	st.ghost["$alloc"] = Val{T: n, S: "Int"}
	return r
}

func (c *Ctx) allocCur(st *State) string {
	if v, ok := st.ghost["$alloc"]; ok {
		return v.T
	}
	c.decl("const:alloc!0", "(declare-const alloc!0 Int)")
	c.decl("assert:alloc!0", "(assert (> alloc!0 0))")
	st.ghost["$alloc"] = Val{T: "alloc!0", S: "Int"}
	return "alloc!0"
}

// known reference values are below the allocation pointer
func (c *Ctx) refFact(st *State, v Val) {
	if v.GT == nil {
		return
	}
	switch v.GT.Underlying().(type) {
	case *types.Pointer, *types.Map:
		st.assume(fmt.Sprintf("(< %s %s)", v.T, c.allocCur(st)))
	case *types.Interface:
		st.assume(fmt.Sprintf("(< (iref %s) %s)", v.T, c.allocCur(st)))
	}
}

// ---------------------------------------------------------------------------
// expression evaluation

var nilVal = Val{T: "nil", S: "?nil"}

func (c *Ctx) evalAs(st *State, e ast.Expr, target types.Type) Val {
	if tv, ok := c.info.Types[e]; ok && tv.IsNil() {
		if target == nil {
			return nilVal
		}
		return c.zero(target)
	}
	v := c.eval(st, e)
	return c.convertTo(st, v, target)
}

func (c *Ctx) convertTo(st *State, v Val, target types.Type) Val {
	if target == nil || v.S == "?nil" {
		if v.S == "?nil" && target != nil {
			return c.zero(target)
		}
		return v
	}
	if types.IsInterface(target) && v.GT != nil && !types.IsInterface(v.GT) {
		return c.box(st, v, target)
	}
	if v.GT == nil || !types.Identical(v.GT, target) {
		// same representation, different static type (named vs underlying etc.)
		if c.sortOf(target) == v.S {
			return Val{T: v.T, S: v.S, GT: target}
		}
	}
	return v
}

func (c *Ctx) box(st *State, v Val, target types.Type) Val {
	tag := c.eng.typeTag(v.GT)
	var ref string
	if _, isPtr := v.GT.Underlying().(*types.Pointer); isPtr {
		ref = v.T
	} else {
		bf := "box!" + mangle(v.S)
		uf := "unbox!" + mangle(v.S)
		c.declFun(bf, []Sort{v.S}, "Int")
		c.declFun(uf, []Sort{"Int"}, v.S)
		ref = "(" + bf + " " + v.T + ")"
		st.assume(fmt.Sprintf("(= (%s %s) %s)", uf, ref, v.T))
		st.assume(fmt.Sprintf("(> %s 0)", ref))
	}
	return Val{T: fmt.Sprintf("(mkI %d %s)", tag, ref), S: "Iface", GT: target}
}

func (c *Ctx) unbox(iv Val, t types.Type) Val {
	s := c.sortOf(t)
	if _, isPtr := t.Underlying().(*types.Pointer); isPtr {
		return Val{T: "(iref " + iv.T + ")", S: "Int", GT: t}
	}
	if types.IsInterface(t) {
		return Val{T: iv.T, S: "Iface", GT: t}
	}
	uf := "unbox!" + mangle(s)
	c.declFun(uf, []Sort{"Int"}, s)
	return Val{T: "(" + uf + " (iref " + iv.T + "))", S: s, GT: t}
}

// hasDynType: the interface value iv holds exactly type t (concrete) or implements t (interface).
func (c *Ctx) hasDynType(iv Val, t types.Type) string {
	if types.IsInterface(t) {
		fn := "impl!" + mangle(typeName(t))
		c.declFun(fn, []Sort{"Int"}, "Bool")
		return and("(not (= (itag "+iv.T+") 0))", "("+fn+" (itag "+iv.T+"))")
	}
	return fmt.Sprintf("(= (itag %s) %d)", iv.T, c.eng.typeTag(t))
}

func (c *Ctx) constVal(tv types.TypeAndValue) (Val, bool) {
	if tv.Value == nil {
		return Val{}, false
	}
	switch tv.Value.Kind() {
	case constant.Bool:
		if constant.BoolVal(tv.Value) {
			return Val{T: "true", S: "Bool", GT: tv.Type}, true
		}
		return Val{T: "false", S: "Bool", GT: tv.Type}, true
	case constant.Int:
		n, ok := new(big.Int).SetString(tv.Value.ExactString(), 10)
		if !ok {
			return Val{}, false
		}
		return Val{T: smtInt(n), S: "Int", GT: tv.Type}, true
	case constant.String:
		return Val{T: c.strLit(constant.StringVal(tv.Value)), S: "Str", GT: tv.Type}, true
	}
	return Val{}, false
}

func (c *Ctx) eval(st *State, e ast.Expr) Val {
	if tv, ok := c.info.Types[e]; ok {
		if v, ok := c.constVal(tv); ok {
			return v
		}
		if tv.IsNil() {
			return nilVal
		}
	}
	switch x := e.(type) {
	case *ast.ParenExpr:
		return c.eval(st, x.X)
	case *ast.Ident:
		return c.evalIdent(st, x)
	case *ast.BasicLit:
		c.abort("unsupported literal %s", x.Value)
		return c.havoc(st, "lit", c.typeOf(e))
	case *ast.SelectorExpr:
		return c.evalSelector(st, x)
	case *ast.StarExpr:
		p := c.eval(st, x.X)
		return c.derefRead(st, p, x)
	case *ast.UnaryExpr:
		return c.evalUnary(st, x)
	case *ast.BinaryExpr:
		return c.evalBinary(st, x)
	case *ast.CallExpr:
		rs := c.evalCall(st, x)
		if len(rs) == 0 {
			return Val{T: "0", S: "Int"}
		}
		return rs[0]
	case *ast.IndexExpr:
		return c.evalIndex(st, x)
	case *ast.SliceExpr:
		return c.evalSliceExpr(st, x)
	case *ast.CompositeLit:
		return c.evalComposite(st, x, false)
	case *ast.TypeAssertExpr:
		iv := c.eval(st, x.X)
		t := c.typeOf(x.Type)
		if c.prefix == "" && c.unit.Contract != nil && c.unit.Contract.Flags["assume-typeassert"] {
			c.note("type assertion " + types.ExprString(x) + " assumed to succeed (flag assume-typeassert: the subscription delivers that type only)")
		} else {
			c.addObl(st, "typeassert", c.ordOf(x, "typeassert"), c.hasDynType(iv, t), "type assertion "+types.ExprString(x)+" at "+c.pos(x))
		}
		st.assume(c.hasDynType(iv, t))
		uv := c.unbox(iv, t)
		for _, f := range c.typeFacts(uv) {
			st.assume(f)
		}
		return uv
	case *ast.FuncLit:
		return Val{T: c.fresh("funclit", "Int"), S: "Int", GT: c.typeOf(e)}
	case *ast.KeyValueExpr:
		c.abort("unexpected key-value expression")
	}
	c.note(fmt.Sprintf("unsupported expression %T havoc'd", e))
	return c.havoc(st, "unk", c.typeOf(e))
}

func (c *Ctx) evalIdent(st *State, id *ast.Ident) Val {
	if id.Name == "_" {
		return Val{T: "0", S: "Int"}
	}
	obj := c.info.ObjectOf(id)
	switch o := obj.(type) {
	case *types.Var:
		return c.readVar(st, o)
	case *types.Func:
		n := "fn!" + mangle(o.FullName())
		c.decl("const:"+n, fmt.Sprintf("(declare-const %s Int)", n))
		return Val{T: n, S: "Int", GT: o.Type()}
	case *types.Nil:
		return nilVal
	}
	c.note("unresolved identifier " + id.Name)
	return c.havoc(st, "id_"+id.Name, c.typeOf(id))
}

func (c *Ctx) readVar(st *State, o *types.Var) Val {
	if v, ok := st.vars[o]; ok {
		return v
	}
	if ref, ok := st.cells[o]; ok {
		return c.cellRead(st, ref, o.Type())
	}
	if o.Pkg() != nil && o.Parent() == o.Pkg().Scope() {
		// package-level variable: treated as an immutable unknown constant
		s := c.sortOf(o.Type())
		n := "gv!" + mangle(o.Pkg().Path()+"."+o.Name())
		c.ensureSort(s)
		c.decl("const:"+n, fmt.Sprintf("(declare-const %s %s)", n, s))
		c.note("package-level variables are treated as constants")
		v := Val{T: n, S: s, GT: o.Type()}
		for _, f := range c.typeFacts(v) {
			st.assume(f)
		}
		return v
	}
	// free variable of a closure unit, or not yet initialised: havoc once
	v := c.havoc(st, "free_"+o.Name(), o.Type())
	c.refFact(st, v)
	st.vars[o] = v
	return v
}

// named binds a long term to a fresh constant (keeps queries small and readable).
func (c *Ctx) named(st *State, prefix string, v Val) Val {
	if len(v.T) < 48 || v.S == "?nil" {
		return v
	}
	n := c.fresh(prefix, v.S)
	st.assume(eq(n, v.T))
	v.T = n
	return v
}

func (c *Ctx) writeVar(st *State, o *types.Var, v Val) {
	if o == nil {
		return
	}
	v = c.named(st, "v_"+o.Name(), v)
	if ref, ok := st.cells[o]; ok {
		c.cellWrite(st, ref, o.Type(), v)
		return
	}
	v.GT = o.Type()
	st.vars[o] = v
}

// cells: boxed locals and pointers to non-struct values
func (c *Ctx) cellKey(t types.Type) (string, Sort) {
	s := c.sortOf(t)
	return "C:" + s, arraySort("Int", s)
}

func isStructVal(t types.Type) bool {
	_, ok := t.Underlying().(*types.Struct)
	return ok
}

func (c *Ctx) cellRead(st *State, ref string, t types.Type) Val {
	if isStructVal(t) {
		return c.loadStruct(st, ref, t)
	}
	k, as := c.cellKey(t)
	v := Val{T: sel(c.heapRead(st, k, as), ref), S: c.sortOf(t), GT: t}
	for _, f := range c.typeFacts(v) {
		st.assume(f)
	}
	return v
}

func (c *Ctx) cellWrite(st *State, ref string, t types.Type, v Val) {
	if isStructVal(t) {
		c.storeStruct(st, ref, t, v)
		return
	}
	k, as := c.cellKey(t)
	c.heapSet(st, k, as, store(c.heapRead(st, k, as), ref, v.T))
}

func (c *Ctx) derefRead(st *State, p Val, at ast.Node) Val {
	t := elemType(p.GT)
	c.addObl(st, "nil", c.ordOf(at, "nil"), "(not (= "+p.T+" 0))", "nil dereference at "+c.pos(at))
	st.assume("(not (= " + p.T + " 0))")
	v := c.cellRead(st, p.T, t)
	for _, f := range c.typeFacts(v) {
		st.assume(f)
	}
	return v
}

// loadStruct builds a struct value from the field heaps at ref.
func (c *Ctx) loadStruct(st *State, ref string, t types.Type) Val {
	s := c.sortOf(t)
	stt := t.Underlying().(*types.Struct)
	var vs []string
	for i := 0; i < stt.NumFields(); i++ {
		vs = append(vs, c.fieldRead(st, ref, t, "", stt.Field(i)).T)
	}
	return Val{T: mkStruct(s, vs), S: s, GT: t}
}

func (c *Ctx) storeStruct(st *State, ref string, t types.Type, v Val) {
	s := c.sortOf(t)
	stt := t.Underlying().(*types.Struct)
	for i := 0; i < stt.NumFields(); i++ {
		f := stt.Field(i)
		fs := c.sortOf(f.Type())
		c.fieldWrite(st, ref, t, "", f, Val{T: c.fldApp(s, f.Name(), fs, v.T), S: fs, GT: f.Type()})
	}
}

// fieldRead reads field f of the struct (type owner) located at ref. prefix is
// the flattened path of enclosing anonymous-struct fields.
func (c *Ctx) fieldRead(st *State, ref string, owner types.Type, prefix string, f *types.Var) Val {
	if isStructVal(f.Type()) {
		// struct-valued field: read as a value
		sub, subOwner, subPrefix := c.subObject(ref, owner, prefix, f)
		s := c.sortOf(f.Type())
		stt := f.Type().Underlying().(*types.Struct)
		var vs []string
		for i := 0; i < stt.NumFields(); i++ {
			vs = append(vs, c.fieldRead(st, sub, subOwner, subPrefix, stt.Field(i)).T)
		}
		return Val{T: mkStruct(s, vs), S: s, GT: f.Type()}
	}
	key := fieldKey(owner, prefix+f.Name())
	fs := c.sortOf(f.Type())
	return Val{T: sel(c.heapRead(st, key, arraySort("Int", fs)), ref), S: fs, GT: f.Type()}
}

func (c *Ctx) fieldWrite(st *State, ref string, owner types.Type, prefix string, f *types.Var, v Val) {
	if isStructVal(f.Type()) {
		sub, subOwner, subPrefix := c.subObject(ref, owner, prefix, f)
		s := c.sortOf(f.Type())
		stt := f.Type().Underlying().(*types.Struct)
		for i := 0; i < stt.NumFields(); i++ {
			g := stt.Field(i)
			gs := c.sortOf(g.Type())
			c.fieldWrite(st, sub, subOwner, subPrefix, g, Val{T: c.fldApp(s, g.Name(), gs, v.T), S: gs, GT: g.Type()})
		}
		return
	}
	key := fieldKey(owner, prefix+f.Name())
	fs := c.sortOf(f.Type())
	as := arraySort("Int", fs)
	c.heapSet(st, key, as, store(c.heapRead(st, key, as), ref, v.T))
}

// subObject gives the location of a struct-valued field: named struct types get
// their own sub-reference, anonymous struct types are flattened into the owner.
func (c *Ctx) subObject(ref string, owner types.Type, prefix string, f *types.Var) (string, types.Type, string) {
	ft := types.Unalias(f.Type())
	if _, named := ft.(*types.Named); named {
		fn := "sub!" + mangle(typeName(owner)+"."+prefix+f.Name())
		c.declFun(fn, []Sort{"Int"}, "Int")
		c.decl("const:alloc!0", "(declare-const alloc!0 Int)")
		c.decl("assert:alloc!0", "(assert (> alloc!0 0))")
		// sub-objects are non-nil, and belong to the same generation (allocated before / after entry) as their owner
		c.decl("ax:"+fn, fmt.Sprintf("(assert (forall ((r Int)) (! (and (=> (> r 0) (> (%s r) 0)) (= (>= r alloc!0) (>= (%s r) alloc!0))) :pattern ((%s r)))))", fn, fn, fn))
		return "(" + fn + " " + ref + ")", ft, ""
	}
	return ref, owner, prefix + f.Name() + "."
}

// cursor is a position while walking a selector path.
type cursor struct {
	isRef  bool
	ref    string
	owner  types.Type // struct type located at ref
	prefix string
	val    Val // when !isRef: a value (struct value, or pointer value before deref)
}

// evalSelector handles package-qualified identifiers and field selections.
func (c *Ctx) evalSelector(st *State, x *ast.SelectorExpr) Val {
	if s, ok := c.info.Selections[x]; ok {
		switch s.Kind() {
		case types.FieldVal:
			cur, f := c.walkToField(st, x, s)
			return c.readAt(st, cur, f)
		default:
			// method value
			return Val{T: c.fresh("methodval", "Int"), S: "Int", GT: c.typeOf(x)}
		}
	}
	// qualified identifier
	return c.evalIdent(st, x.Sel)
}

// walkToField resolves X.f (including promoted fields) to the cursor holding
// the struct that directly contains the last field, and that field.
func (c *Ctx) walkToField(st *State, x *ast.SelectorExpr, s *types.Selection) (cursor, *types.Var) {
	cur := c.cursorOf(st, x.X)
	path := s.Index()
	t := s.Recv()
	for i, idx := range path {
		cur, t = c.derefCursor(st, cur, t, x)
		stt := t.Underlying().(*types.Struct)
		f := stt.Field(idx)
		if i == len(path)-1 {
			return cur, f
		}
		cur = c.stepField(st, cur, f)
		t = f.Type()
	}
	panic("unreachable")
}

// cursorOf evaluates an expression as the base of a selector path, keeping it
// as a location when possible.
func (c *Ctx) cursorOf(st *State, e ast.Expr) cursor {
	e = unparen(e)
	switch x := e.(type) {
	case *ast.Ident:
		if o, ok := c.info.ObjectOf(x).(*types.Var); ok {
			if ref, boxed := st.cells[o]; boxed && isStructVal(o.Type()) {
				return cursor{isRef: true, ref: ref, owner: o.Type()}
			}
		}
	case *ast.SelectorExpr:
		if s, ok := c.info.Selections[x]; ok && s.Kind() == types.FieldVal && isStructVal(s.Type()) {
			cur, f := c.walkToField(st, x, s)
			return c.stepField(st, cur, f)
		}
	case *ast.StarExpr:
		p := c.eval(st, x.X)
		if isStructVal(elemType(p.GT)) {
			c.addObl(st, "nil", c.ordOf(x, "nil"), "(not (= "+p.T+" 0))", "nil dereference at "+c.pos(x))
			st.assume("(not (= " + p.T + " 0))")
			return cursor{isRef: true, ref: p.T, owner: elemType(p.GT)}
		}
	}
	return cursor{val: c.eval(st, e)}
}

// derefCursor: if the cursor holds a pointer value, dereference it (with a nil obligation).
func (c *Ctx) derefCursor(st *State, cur cursor, t types.Type, at ast.Node) (cursor, types.Type) {
	if cur.isRef {
		if cur.prefix != "" {
			// inside a flattened anonymous struct: t is that struct's type
			return cur, t
		}
		return cur, cur.owner
	}
	if p, ok := cur.val.GT.Underlying().(*types.Pointer); ok {
		c.addObl(st, "nil", c.ordOf(at, "nil"), "(not (= "+cur.val.T+" 0))", "nil dereference in "+types.ExprString(at.(ast.Expr))+" at "+c.pos(at))
		st.assume("(not (= " + cur.val.T + " 0))")
		return cursor{isRef: true, ref: cur.val.T, owner: p.Elem()}, p.Elem()
	}
	return cur, cur.val.GT
}

// stepField moves the cursor into field f (a struct or pointer-to-struct typed field).
func (c *Ctx) stepField(st *State, cur cursor, f *types.Var) cursor {
	if cur.isRef {
		if isStructVal(f.Type()) {
			sub, owner, prefix := c.subObject(cur.ref, cur.owner, cur.prefix, f)
			return cursor{isRef: true, ref: sub, owner: owner, prefix: prefix}
		}
		return cursor{val: c.fieldRead(st, cur.ref, cur.owner, cur.prefix, f)}
	}
	// struct value
	fs := c.sortOf(f.Type())
	return cursor{val: Val{T: c.fldApp(cur.val.S, f.Name(), fs, cur.val.T), S: fs, GT: f.Type()}}
}

func (c *Ctx) readAt(st *State, cur cursor, f *types.Var) Val {
	var v Val
	if cur.isRef {
		v = c.fieldRead(st, cur.ref, cur.owner, cur.prefix, f)
	} else {
		fs := c.sortOf(f.Type())
		v = Val{T: c.fldApp(cur.val.S, f.Name(), fs, cur.val.T), S: fs, GT: f.Type()}
	}
	for _, fa := range c.typeFacts(v) {
		st.assume(fa)
	}
	c.refFact(st, v)
	return v
}

func unparen(e ast.Expr) ast.Expr {
	for {
		p, ok := e.(*ast.ParenExpr)
		if !ok {
			return e
		}
		e = p.X
	}
}

// ---------------------------------------------------------------------------

func (c *Ctx) evalUnary(st *State, x *ast.UnaryExpr) Val {
	switch x.Op {
	case token.NOT:
		v := c.eval(st, x.X)
		return Val{T: not(v.T), S: "Bool", GT: v.GT}
	case token.SUB:
		v := c.eval(st, x.X)
		return Val{T: "(- " + v.T + ")", S: v.S, GT: v.GT}
	case token.ADD:
		return c.eval(st, x.X)
	case token.AND:
		return c.addressOf(st, x)
	case token.ARROW:
		c.eval(st, x.X)
		v := c.havoc(st, "recv", c.typeOf(x))
		c.refFact(st, v)
		return v
	}
	c.note("unsupported unary operator " + x.Op.String())
	return c.havoc(st, "un", c.typeOf(x))
}

func (c *Ctx) addressOf(st *State, x *ast.UnaryExpr) Val {
	t := c.typeOf(x)
	switch y := unparen(x.X).(type) {
	case *ast.CompositeLit:
		if lt := c.typeOf(y); lt != nil {
			if _, isStruct := lt.Underlying().(*types.Struct); !isStruct {
				// &T{...} for a slice / map type: a fresh cell holding the value
				v := c.evalComposite(st, y, false)
				ref := c.alloc(st)
				c.cellWrite(st, ref, lt, v)
				return Val{T: ref, S: "Int", GT: t}
			}
		}
		return c.evalComposite(st, y, true)
	case *ast.Ident:
		if o, ok := c.info.ObjectOf(y).(*types.Var); ok {
			if ref, ok := st.cells[o]; ok {
				return Val{T: ref, S: "Int", GT: t}
			}
			// not pre-boxed (should not happen: boxing is decided up front)
			c.note("address of unboxed variable " + y.Name)
			ref := c.alloc(st)
			cur := c.readVar(st, o)
			delete(st.vars, o)
			st.cells[o] = ref
			c.cellWrite(st, ref, o.Type(), cur)
			return Val{T: ref, S: "Int", GT: t}
		}
	case *ast.SelectorExpr:
		if s, ok := c.info.Selections[y]; ok && s.Kind() == types.FieldVal && isStructVal(s.Type()) {
			cur, f := c.walkToField(st, y, s)
			cur = c.stepField(st, cur, f)
			if cur.isRef && cur.prefix == "" {
				return Val{T: cur.ref, S: "Int", GT: t}
			}
		}
	}
	c.note("address-of expression havoc'd: " + types.ExprString(x))
	v := c.havoc(st, "addr", t)
	st.assume("(> " + v.T + " 0)")
	return v
}

func isNilVal(v Val) bool { return v.S == "?nil" }

func (c *Ctx) nilTest(v Val) string {
	switch {
	case v.S == "Iface":
		return "(= (itag " + v.T + ") 0)"
	case isSliceSort(v.S):
		return sNil(v)
	default:
		return "(= " + v.T + " 0)"
	}
}

func (c *Ctx) goDiv(a, b string) string {
	return fmt.Sprintf("(ite (>= %[1]s 0) (ite (> %[2]s 0) (div %[1]s %[2]s) (- (div %[1]s (- %[2]s)))) (ite (> %[2]s 0) (- (div (- %[1]s) %[2]s)) (div (- %[1]s) (- %[2]s))))", a, b)
}

func (c *Ctx) evalBinary(st *State, x *ast.BinaryExpr) Val {
	t := c.typeOf(x)
	switch x.Op {
	case token.LAND, token.LOR:
		l := c.eval(st, x.X)
		// evaluate the right operand under the assumption that it is reached
		n := len(st.pc)
		if x.Op == token.LAND {
			st.assume(l.T)
		} else {
			st.assume(not(l.T))
		}
		guard := ""
		if len(st.pc) > n {
			guard = st.pc[n]
		}
		r := c.eval(st, x.Y)
		// definitions added while evaluating the right side stay, guarded
		if guard != "" {
			extra := append([]string(nil), st.pc[n+1:]...)
			st.pc = st.pc[:n]
			for _, a := range extra {
				st.assume(implies(guard, a))
			}
		}
		if x.Op == token.LAND {
			return Val{T: and(l.T, r.T), S: "Bool", GT: t}
		}
		return Val{T: or(l.T, r.T), S: "Bool", GT: t}
	}
	l := c.eval(st, x.X)
	r := c.eval(st, x.Y)
	if x.Op == token.EQL || x.Op == token.NEQ {
		var res string
		switch {
		case isNilVal(l) && isNilVal(r):
			res = "true"
		case isNilVal(r):
			res = c.nilTest(l)
		case isNilVal(l):
			res = c.nilTest(r)
		default:
			// mixed interface / concrete comparison
			if l.S == "Iface" && r.S != "Iface" {
				r = c.box(st, r, l.GT)
			} else if r.S == "Iface" && l.S != "Iface" {
				l = c.box(st, l, r.GT)
			}
			res = eq(l.T, r.T)
		}
		if x.Op == token.NEQ {
			res = not(res)
		}
		return Val{T: res, S: "Bool", GT: t}
	}
	if l.S == "Str" {
		switch x.Op {
		case token.ADD:
			c.declFun("concat!Str", []Sort{"Str", "Str"}, "Str")
			v := Val{T: "(concat!Str " + l.T + " " + r.T + ")", S: "Str", GT: t}
			st.assume(fmt.Sprintf("(= (len!Str %s) (+ (len!Str %s) (len!Str %s)))", v.T, l.T, r.T))
			return v
		case token.LSS, token.GTR, token.LEQ, token.GEQ:
			c.declFun("lt!Str", []Sort{"Str", "Str"}, "Bool")
			a, b := l.T, r.T
			switch x.Op {
			case token.LSS:
				return Val{T: "(lt!Str " + a + " " + b + ")", S: "Bool", GT: t}
			case token.GTR:
				return Val{T: "(lt!Str " + b + " " + a + ")", S: "Bool", GT: t}
			case token.LEQ:
				return Val{T: not("(lt!Str " + b + " " + a + ")"), S: "Bool", GT: t}
			default:
				return Val{T: not("(lt!Str " + a + " " + b + ")"), S: "Bool", GT: t}
			}
		}
	}
	switch x.Op {
	case token.ADD:
		return Val{T: "(+ " + l.T + " " + r.T + ")", S: l.S, GT: t}
	case token.SUB:
		return Val{T: "(- " + l.T + " " + r.T + ")", S: l.S, GT: t}
	case token.MUL:
		return Val{T: "(* " + l.T + " " + r.T + ")", S: l.S, GT: t}
	case token.QUO:
		c.addObl(st, "div", c.ordOf(x, "div"), "(not (= "+r.T+" 0))", "division by zero at "+c.pos(x))
		st.assume("(not (= " + r.T + " 0))")
		return Val{T: c.goDiv(l.T, r.T), S: l.S, GT: t}
	case token.REM:
		c.addObl(st, "div", c.ordOf(x, "div"), "(not (= "+r.T+" 0))", "division by zero at "+c.pos(x))
		st.assume("(not (= " + r.T + " 0))")
		return Val{T: "(- " + l.T + " (* " + r.T + " " + c.goDiv(l.T, r.T) + "))", S: l.S, GT: t}
	case token.LSS:
		return Val{T: "(< " + l.T + " " + r.T + ")", S: "Bool", GT: t}
	case token.LEQ:
		return Val{T: "(<= " + l.T + " " + r.T + ")", S: "Bool", GT: t}
	case token.GTR:
		return Val{T: "(> " + l.T + " " + r.T + ")", S: "Bool", GT: t}
	case token.GEQ:
		return Val{T: "(>= " + l.T + " " + r.T + ")", S: "Bool", GT: t}
	}
	c.note("unsupported binary operator " + x.Op.String())
	return c.havoc(st, "bin", t)
}

// ---------------------------------------------------------------------------
// maps

type mapKeys struct {
	dom, val, card    string
	domS, valS, cardS Sort
	kS, vS            Sort
}

func (c *Ctx) mapHeap(t types.Type) mapKeys {
	m := t.Underlying().(*types.Map)
	k, v := c.sortOf(m.Key()), c.sortOf(m.Elem())
	id := mangle(k) + ":" + mangle(v)
	return mapKeys{dom: "MD:" + id, val: "MV:" + id, card: "MC:" + id,
		domS: arraySort("Int", arraySort(k, "Bool")), valS: arraySort("Int", arraySort(k, v)), cardS: arraySort("Int", "Int"), kS: k, vS: v}
}

func (c *Ctx) mapDom(st *State, m Val) string {
	mk := c.mapHeap(m.GT)
	return sel(c.heapRead(st, mk.dom, mk.domS), m.T)
}
func (c *Ctx) mapValArr(st *State, m Val) string {
	mk := c.mapHeap(m.GT)
	return sel(c.heapRead(st, mk.val, mk.valS), m.T)
}
func (c *Ctx) mapCard(st *State, m Val) string {
	mk := c.mapHeap(m.GT)
	return sel(c.heapRead(st, mk.card, mk.cardS), m.T)
}

func (c *Ctx) mapRead(st *State, m Val, k Val) (Val, string) {
	mt := m.GT.Underlying().(*types.Map)
	ok := and("(not (= "+m.T+" 0))", sel(c.mapDom(st, m), k.T))
	z := c.zero(mt.Elem())
	v := Val{T: "(ite " + ok + " " + sel(c.mapValArr(st, m), k.T) + " " + z.T + ")", S: z.S, GT: mt.Elem()}
	return v, ok
}

func (c *Ctx) mapWrite(st *State, m Val, k, v Val, at ast.Node) {
	mk := c.mapHeap(m.GT)
	c.addObl(st, "mapwrite", c.ordOf(at, "mapwrite"), "(not (= "+m.T+" 0))", "assignment to entry in nil map at "+c.pos(at))
	st.assume("(not (= " + m.T + " 0))")
	domH := c.heapRead(st, mk.dom, mk.domS)
	valH := c.heapRead(st, mk.val, mk.valS)
	cardH := c.heapRead(st, mk.card, mk.cardS)
	had := sel(sel(domH, m.T), k.T)
	c.heapSet(st, mk.card, mk.cardS, store(cardH, m.T, "(ite "+had+" "+sel(cardH, m.T)+" (+ "+sel(cardH, m.T)+" 1))"))
	c.heapSet(st, mk.dom, mk.domS, store(domH, m.T, store(sel(domH, m.T), k.T, "true")))
	c.heapSet(st, mk.val, mk.valS, store(valH, m.T, store(sel(valH, m.T), k.T, v.T)))
}

func (c *Ctx) mapDelete(st *State, m Val, k Val) {
	mk := c.mapHeap(m.GT)
	domH := c.heapRead(st, mk.dom, mk.domS)
	cardH := c.heapRead(st, mk.card, mk.cardS)
	had := sel(sel(domH, m.T), k.T)
	// deleting from a nil map is a no-op; reference 0 never has entries
	c.heapSet(st, mk.card, mk.cardS, store(cardH, m.T, "(ite "+had+" (- "+sel(cardH, m.T)+" 1) "+sel(cardH, m.T)+")"))
	c.heapSet(st, mk.dom, mk.domS, store(domH, m.T, store(sel(domH, m.T), k.T, "false")))
}

func (c *Ctx) newMap(st *State, t types.Type) Val {
	mk := c.mapHeap(t)
	r := c.alloc(st)
	domH := c.heapRead(st, mk.dom, mk.domS)
	cardH := c.heapRead(st, mk.card, mk.cardS)
	c.heapSet(st, mk.dom, mk.domS, store(domH, r, c.constArr(mk.kS, "Bool", "false")))
	c.heapSet(st, mk.card, mk.cardS, store(cardH, r, "0"))
	return Val{T: r, S: "Int", GT: t}
}

// mapFacts: cardinality is non-negative (assumed whenever a map is looked at).
func (c *Ctx) mapFacts(st *State, m Val) {
	st.assume("(>= " + c.mapCard(st, m) + " 0)")
}

// ---------------------------------------------------------------------------
// index / slice expressions

func (c *Ctx) evalIndex(st *State, x *ast.IndexExpr) Val {
	bt := c.typeOf(x.X)
	if bt == nil {
		c.note("generic instantiation ignored")
		return c.eval(st, x.X)
	}
	switch u := bt.Underlying().(type) {
	case *types.Map:
		m := c.eval(st, x.X)
		k := c.evalAs(st, x.Index, u.Key())
		v, _ := c.mapRead(st, m, k)
		return v
	case *types.Slice, *types.Array:
		s := c.eval(st, x.X)
		i := c.eval(st, x.Index)
		goal := and("(<= 0 "+i.T+")", "(< "+i.T+" "+sLen(s)+")")
		c.addObl(st, "bounds", c.ordOf(x, "bounds"), goal, "index "+types.ExprString(x)+" in range at "+c.pos(x))
		st.assume(goal)
		v := Val{T: sAt(s, i.T), S: sliceElemSort(s.S), GT: elemType(bt)}
		for _, f := range c.typeFacts(v) {
			st.assume(f)
		}
		c.refFact(st, v)
		return v
	case *types.Pointer:
		// pointer to array
	case *types.Basic:
		if u.Info()&types.IsString != 0 {
			s := c.eval(st, x.X)
			i := c.eval(st, x.Index)
			goal := and("(<= 0 "+i.T+")", "(< "+i.T+" (len!Str "+s.T+"))")
			c.addObl(st, "bounds", c.ordOf(x, "bounds"), goal, "string index in range at "+c.pos(x))
			st.assume(goal)
			c.declFun("char!Str", []Sort{"Str", "Int"}, "Int")
			return Val{T: "(char!Str " + s.T + " " + i.T + ")", S: "Int", GT: c.typeOf(x)}
		}
	}
	c.note("unsupported index expression " + types.ExprString(x))
	return c.havoc(st, "idx", c.typeOf(x))
}

func (c *Ctx) evalSliceExpr(st *State, x *ast.SliceExpr) Val {
	bt := c.typeOf(x.X)
	if b, ok := bt.Underlying().(*types.Basic); ok && b.Info()&types.IsString != 0 {
		s := c.eval(st, x.X)
		lo, hi := "0", "(len!Str "+s.T+")"
		if x.Low != nil {
			lo = c.eval(st, x.Low).T
		}
		if x.High != nil {
			hi = c.eval(st, x.High).T
		}
		goal := and("(<= 0 "+lo+")", "(<= "+lo+" "+hi+")", "(<= "+hi+" (len!Str "+s.T+"))")
		c.addObl(st, "bounds", c.ordOf(x, "bounds"), goal, "string slice in range at "+c.pos(x))
		st.assume(goal)
		c.declFun("substr!Str", []Sort{"Str", "Int", "Int"}, "Str")
		v := Val{T: "(substr!Str " + s.T + " " + lo + " " + hi + ")", S: "Str", GT: c.typeOf(x)}
		st.assume("(= (len!Str " + v.T + ") (- " + hi + " " + lo + "))")
		return v
	}
	s := c.eval(st, x.X)
	if !isSliceSort(s.S) {
		c.note("unsupported slice expression")
		return c.havoc(st, "slc", c.typeOf(x))
	}
	lo, hi := "0", sLen(s)
	if x.Low != nil {
		lo = c.eval(st, x.Low).T
	}
	if x.High != nil {
		hi = c.eval(st, x.High).T
	}
	// the capacity is not modelled: the upper bound is checked against the length
	// (sound for no-panic only when cap == len; noted)
	c.declFun("cap!extra", []Sort{s.S}, "Int")
	capT := "(+ " + sLen(s) + " (cap!extra " + s.T + "))"
	st.assume("(>= (cap!extra " + s.T + ") 0)")
	goal := and("(<= 0 "+lo+")", "(<= "+lo+" "+hi+")", "(<= "+hi+" "+capT+")")
	c.addObl(st, "bounds", c.ordOf(x, "bounds"), goal, "slice "+types.ExprString(x)+" in range at "+c.pos(x))
	st.assume(goal)
	if lo == "0" {
		return Val{T: mkSl(s.S, "0", hi, sArr(s), "false"), S: s.S, GT: c.typeOf(x)}
	}
	// shifted copy: A'[j] = A[j+lo]
	es := sliceElemSort(s.S)
	na := c.fresh("shift", arraySort("Int", es))
	c.nfr++
	j := fmt.Sprintf("j!q%d", c.nfr)
	st.assume(fmt.Sprintf("(forall ((%s Int)) (! (= (select %s %s) (select %s (+ %s %s))) :pattern ((select %s %s))))", j, na, j, sArr(s), j, lo, na, j))
	return Val{T: mkSl(s.S, "0", minus(hi, lo), na, "false"), S: s.S, GT: c.typeOf(x)}
}

// ---------------------------------------------------------------------------
// composite literals

func (c *Ctx) evalComposite(st *State, x *ast.CompositeLit, addr bool) Val {
	t := c.typeOf(x)
	switch u := t.Underlying().(type) {
	case *types.Struct:
		// collect field values
		vals := map[string]Val{}
		for i, el := range x.Elts {
			if kv, ok := el.(*ast.KeyValueExpr); ok {
				name := kv.Key.(*ast.Ident).Name
				var ft types.Type
				for j := 0; j < u.NumFields(); j++ {
					if u.Field(j).Name() == name {
						ft = u.Field(j).Type()
					}
				}
				vals[name] = c.evalAs(st, kv.Value, ft)
			} else {
				vals[u.Field(i).Name()] = c.evalAs(st, el, u.Field(i).Type())
			}
		}
		if addr {
			ref := c.alloc(st)
			for j := 0; j < u.NumFields(); j++ {
				f := u.Field(j)
				v, ok := vals[f.Name()]
				if !ok {
					v = c.zero(f.Type())
				}
				c.fieldWrite(st, ref, t, "", f, v)
			}
			return Val{T: ref, S: "Int", GT: types.NewPointer(t)}
		}
		s := c.sortOf(t)
		var vs []string
		for j := 0; j < u.NumFields(); j++ {
			f := u.Field(j)
			v, ok := vals[f.Name()]
			if !ok {
				v = c.zero(f.Type())
			}
			vs = append(vs, v.T)
		}
		return Val{T: mkStruct(s, vs), S: s, GT: t}
	case *types.Slice, *types.Array:
		et := elemType(t)
		s := c.sortOf(t)
		es := sliceElemSort(s)
		arr := c.constArr("Int", es, c.zero(et).T)
		n := 0
		for _, el := range x.Elts {
			if kv, ok := el.(*ast.KeyValueExpr); ok {
				el = kv.Value
				c.note("indexed slice literal treated positionally")
			}
			var v Val
			if cl, ok := el.(*ast.CompositeLit); ok && cl.Type == nil {
				v = c.evalComposite(st, cl, false)
			} else {
				v = c.evalAs(st, el, et)
			}
			arr = store(arr, fmt.Sprint(n), v.T)
			n++
		}
		a := c.fresh("arr", arraySort("Int", es))
		st.assume(eq(a, arr))
		return Val{T: mkSl(s, "0", fmt.Sprint(n), a, "false"), S: s, GT: t}
	case *types.Map:
		m := c.newMap(st, t)
		for _, el := range x.Elts {
			kv := el.(*ast.KeyValueExpr)
			k := c.evalAs(st, kv.Key, u.Key())
			v := c.evalAs(st, kv.Value, u.Elem())
			c.mapWrite(st, m, k, v, x)
		}
		return m
	case *types.Pointer:
		_ = u
	}
	c.note("unsupported composite literal " + types.ExprString(x))
	return c.havoc(st, "complit", t)
}

// ---------------------------------------------------------------------------
// integer conversion (exact semantics, DESIGN §2.4)

func (c *Ctx) convInt(st *State, v Val, to types.Type, at ast.Node) Val {
	lo, hi, ok := intRange(to)
	if !ok {
		return Val{T: v.T, S: "Int", GT: to}
	}
	flo, fhi, fok := intRange(v.GT)
	if fok && flo.Cmp(lo) >= 0 && fhi.Cmp(hi) <= 0 {
		return Val{T: v.T, S: "Int", GT: to}
	}
	// narrowing or sign-changing conversion
	name := c.ordOf(at, "conv")
	inRange := and("(<= "+smtInt(lo)+" "+v.T+")", "(<= "+v.T+" "+smtInt(hi)+")")
	wraps := c.unit.Contract != nil && c.unit.Contract.Wraps[name]
	if !wraps && c.prefix == "" {
		c.addObl(st, "conv", name, inRange, "integer conversion "+types.ExprString(at.(ast.Expr))+" preserves the value, at "+c.pos(at))
	}
	width := new(big.Int).Add(new(big.Int).Sub(hi, lo), big.NewInt(1))
	m := "(mod " + v.T + " " + width.String() + ")"
	var res string
	if lo.Sign() == 0 {
		res = m
	} else {
		res = "(ite (> " + m + " " + smtInt(hi) + ") (- " + m + " " + width.String() + ") " + m + ")"
	}
	r := c.fresh("conv", "Int")
	st.assume(eq(r, res))
	return Val{T: r, S: "Int", GT: to}
}

func (c *Ctx) evalConversion(st *State, call *ast.CallExpr, to types.Type) Val {
	arg := call.Args[0]
	if tv, ok := c.info.Types[arg]; ok && tv.IsNil() {
		return c.zero(to)
	}
	v := c.eval(st, arg)
	ts := c.sortOf(to)
	switch {
	case types.IsInterface(to):
		return c.convertTo(st, v, to)
	case ts == "Int" && v.S == "Int":
		if _, _, ok := intRange(to); ok && v.GT != nil {
			if _, _, ok2 := intRange(v.GT); ok2 {
				return c.convInt(st, v, to, call)
			}
		}
		return Val{T: v.T, S: "Int", GT: to}
	case ts == v.S:
		return Val{T: v.T, S: ts, GT: to}
	case ts == "Str" && isSliceSort(v.S):
		fn := "str!of!" + mangle(v.S)
		c.declFun(fn, []Sort{v.S}, "Str")
		r := Val{T: "(" + fn + " " + v.T + ")", S: "Str", GT: to}
		st.assume("(= (len!Str " + r.T + ") " + sLen(v) + ")")
		return r
	case isSliceSort(ts) && v.S == "Str":
		r := c.havoc(st, "bytes", to)
		st.assume("(= " + sLen(r) + " (len!Str " + v.T + "))")
		st.assume(not(sNil(r)))
		fn := "str!of!" + mangle(ts)
		c.declFun(fn, []Sort{ts}, "Str")
		st.assume("(= (" + fn + " " + r.T + ") " + v.T + ")")
		return r
	}
	c.note("unsupported conversion to " + to.String())
	return c.havoc(st, "conv", to)
}

func describe(v Val) string { return strings.TrimSpace(v.T) }
