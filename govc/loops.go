package main

import (
	"sort"
	"fmt"
	"go/ast"
	"go/token"
	"go/types"
	"regexp"
	"strings"

	"golang.org/x/tools/go/types/typeutil"
)

// modSet is what a piece of code may modify, computed syntactically.
type modSet struct {
	vars   map[*types.Var]bool
	keys   map[string]Sort // heap key -> array sort ("" if unknown)
	all    bool
	why    []string        // callees without contract that made `all` true (become path taint when the loop is cut)
	points map[string]bool // program points ("after call f#1", ...) that lie inside the scanned code
}

func newModSet() *modSet { return &modSet{vars: map[*types.Var]bool{}, keys: map[string]Sort{}} }

func (c *Ctx) loopSpec(n ast.Node) (string, *LoopSpec) {
	id := c.loopID[n]
	if c.prefix != "" {
		return id, nil
	}
	if c.unit.Contract != nil {
		if ls, ok := c.unit.Contract.Loops[id]; ok {
			return id, ls
		}
	}
	return id, nil
}

func (c *Ctx) collectMods(info *types.Info, n ast.Node, ms *modSet, depth int) {
	if n == nil || ms.all {
		return
	}
	var target func(e ast.Expr)
	target = func(e ast.Expr) {
		e = unparen(e)
		switch x := e.(type) {
		case *ast.Ident:
			if o, ok := info.ObjectOf(x).(*types.Var); ok {
				ms.vars[o] = true
			}
		case *ast.SelectorExpr:
			s, ok := info.Selections[x]
			if !ok || s.Kind() != types.FieldVal {
				return
			}
			// static walk to find owner/prefix of the last field
			t := s.Recv()
			prefix := ""
			var owner types.Type
			base := unparen(x.X)
			isRef := false
			if p, ok := t.Underlying().(*types.Pointer); ok {
				t = p.Elem()
				isRef = true
			}
			if id, ok := base.(*ast.Ident); ok && !isRef {
				// struct value in a local: the variable is assigned (or a boxed struct: its fields)
				if o, ok := info.ObjectOf(id).(*types.Var); ok {
					ms.vars[o] = true
				}
			}
			owner = t
			path := s.Index()
			for i, idx := range path {
				stt, ok := t.Underlying().(*types.Struct)
				if !ok {
					ms.all = true
					return
				}
				f := stt.Field(idx)
				if i == len(path)-1 {
					c.addFieldKeys(ms, owner, prefix, f)
					return
				}
				ft := f.Type()
				if p, ok := ft.Underlying().(*types.Pointer); ok {
					ft = p.Elem()
					owner, prefix = ft, ""
				} else if _, named := types.Unalias(ft).(*types.Named); named {
					owner, prefix = ft, ""
				} else {
					prefix += f.Name() + "."
				}
				t = ft
			}
		case *ast.IndexExpr:
			bt := info.TypeOf(x.X)
			if bt == nil {
				ms.all = true
				return
			}
			if _, ok := bt.Underlying().(*types.Map); ok {
				mk := c.mapHeap(bt)
				ms.keys[mk.dom], ms.keys[mk.val], ms.keys[mk.card] = mk.domS, mk.valS, mk.cardS
				return
			}
			target(x.X)
		case *ast.StarExpr:
			pt := info.TypeOf(x.X)
			if pt == nil {
				ms.all = true
				return
			}
			et := elemType(pt)
			if stt, ok := et.Underlying().(*types.Struct); ok {
				for i := 0; i < stt.NumFields(); i++ {
					c.addFieldKeys(ms, et, "", stt.Field(i))
				}
				return
			}
			k, as := c.cellKey(et)
			ms.keys[k] = as
		}
	}
	ast.Inspect(n, func(m ast.Node) bool {
		if ms.all {
			return false
		}
		switch x := m.(type) {
		case *ast.GoStmt:
			if fl, ok := unparen(x.Call.Fun).(*ast.FuncLit); ok && info == c.info && c.inlineGo(fl) {
				return true // executed in place: its effects count
			}
			// effects of spawned goroutines are not applied (sequential abstraction)
			for _, a := range x.Call.Args {
				c.collectMods(info, a, ms, depth)
			}
			return false
		case *ast.AssignStmt:
			for i, l := range x.Lhs {
				target(l)
				// element writes and appends through a re-sliced variable reach its partners (see writeThrough)
				var through ast.Expr
				if ie, ok := unparen(l).(*ast.IndexExpr); ok {
					through = ie.X
				} else if i < len(x.Rhs) {
					if call, ok := unparen(x.Rhs[i]).(*ast.CallExpr); ok {
						if fid, ok := unparen(call.Fun).(*ast.Ident); ok && fid.Name == "append" && len(call.Args) > 0 {
							through = call.Args[0]
						}
					}
				}
				if id, ok := through.(*ast.Ident); ok && info == c.info && c.prefix == "" {
					for _, p := range c.aliasPartners(info.ObjectOf(id)) {
						if pv, ok := p.(*types.Var); ok {
							ms.vars[pv] = true
						}
					}
				}
			}
		case *ast.IncDecStmt:
			target(x.X)
		case *ast.RangeStmt:
			if x.Key != nil {
				target(x.Key)
			}
			if x.Value != nil {
				target(x.Value)
			}
		case *ast.SendStmt:
			if ct := info.TypeOf(x.Chan); ct != nil {
				es := c.sortOf(elemType(ct))
				ms.keys["G:sent:"+mangle(es)] = arraySort("Int", c.seqSort(es))
			}
		case *ast.CallExpr:
			c.callMods(info, x, ms, depth)
		}
		return true
	})
	// boxed variables live in cells
	for o := range ms.vars {
		if c.boxed[o] {
			if stt, ok := o.Type().Underlying().(*types.Struct); ok {
				for i := 0; i < stt.NumFields(); i++ {
					c.addFieldKeys(ms, o.Type(), "", stt.Field(i))
				}
			} else {
				k, as := c.cellKey(o.Type())
				ms.keys[k] = as
			}
		}
	}
}

func (c *Ctx) addFieldKeys(ms *modSet, owner types.Type, prefix string, f *types.Var) {
	if stt, ok := f.Type().Underlying().(*types.Struct); ok {
		ft := types.Unalias(f.Type())
		if _, named := ft.(*types.Named); named {
			for i := 0; i < stt.NumFields(); i++ {
				c.addFieldKeys(ms, ft, "", stt.Field(i))
			}
		} else {
			for i := 0; i < stt.NumFields(); i++ {
				c.addFieldKeys(ms, owner, prefix+f.Name()+".", stt.Field(i))
			}
		}
		return
	}
	ms.keys[fieldKey(owner, prefix+f.Name())] = arraySort("Int", c.sortOf(f.Type()))
}

func (c *Ctx) callMods(info *types.Info, call *ast.CallExpr, ms *modSet, depth int) {
	if tv, ok := info.Types[call.Fun]; ok && tv.IsType() {
		return
	}
	if id, ok := unparen(call.Fun).(*ast.Ident); ok {
		if b, ok := info.ObjectOf(id).(*types.Builtin); ok {
			switch b.Name() {
			case "delete":
				if mt := info.TypeOf(call.Args[0]); mt != nil {
					mk := c.mapHeap(mt)
					ms.keys[mk.dom], ms.keys[mk.val], ms.keys[mk.card] = mk.domS, mk.valS, mk.cardS
				}
			case "copy":
				ms.all = true
			case "new", "make":
				// allocation writes initial contents of fresh cells / maps
				if t := info.TypeOf(call); t != nil {
					if _, ok := t.Underlying().(*types.Map); ok {
						mk := c.mapHeap(t)
						ms.keys[mk.dom], ms.keys[mk.val], ms.keys[mk.card] = mk.domS, mk.valS, mk.cardS
					}
					if p, ok := t.Underlying().(*types.Pointer); ok {
						k, as := c.cellKey(p.Elem())
						ms.keys[k] = as
					}
				}
			}
			return
		}
	}
	if _, ok := unparen(call.Fun).(*ast.FuncLit); ok {
		return // body is inspected by the enclosing walk
	}
	fn, _ := typeutil.Callee(info, call).(*types.Func)
	if fn == nil {
		if info == c.info {
			if ct, _ := c.funcValueContract(call); ct != nil && ct.HasMod {
				env := &SpecEnv{c: c, st: newState(), bound: map[string]Val{}}
				for _, item := range ct.Modifies {
					keys, _, err := c.resolveMod(env, item, nil)
					if err != nil || keys == nil {
						ms.all = true
						return
					}
					for _, k := range keys {
						ms.keys[k] = heapSorts[k]
					}
				}
				return
			}
		}
		ms.all = true
		return
	}
	e := c.eng
	ct := e.externFor(fn)
	if ct == nil {
		ct = e.contractFor(fn)
	}
	if ct != nil {
		c.modsCall, c.modsInfo = call, info
		c.contractMods(fn, ct, ms)
		c.modsCall, c.modsInfo = nil, nil
		return
	}
	if e.isPure(fn) || e.isNoEffect(fn) {
		return
	}
	sig := fn.Type().(*types.Signature)
	isIface := sig.Recv() != nil && types.IsInterface(sig.Recv().Type())
	if isIface && depth < 6 {
		if fi, _ := c.devirtTarget(info, call, fn); fi != nil {
			if mct := c.eng.contractFor(fi.Obj); mct != nil {
				c.contractMods(fi.Obj, mct, ms)
				return
			}
			c.collectMods(fi.Pkg.TypesInfo, fi.Decl.Body, ms, depth+1)
			return
		}
	}
	if fi := e.funcs[fn.FullName()]; !isIface && fi != nil && (e.cs.Inline[fn.FullName()] || inlinable(fi.Decl) || inlinableBranching(fi.Decl)) && depth < 6 {
		// (a branching helper whose inlining fails at the call is havoc'd there; its syntactic effects are
		// still a sound description of what the call can change)
		c.collectMods(fi.Pkg.TypesInfo, fi.Decl.Body, ms, depth+1)
		// callee locals are irrelevant to the caller but harmless
		return
	}
	ms.all = true
	ms.why = append(ms.why, fn.FullName())
}

// composite literals of maps / &T{} allocate: they write fresh cells only, which
// cannot alias anything visible before the loop; nothing to add.

func (c *Ctx) havocMods(st *State, ms *modSet) {
	if ms.all && len(ms.why) > 0 {
		st.taint = append(st.taint, ms.why...)
	}
	if ms.all {
		c.heapHavocAll(st)
	}
	for _, k := range sortedKeys(ms.keys) {
		if as := ms.keys[k]; as != "" {
			heapSorts[k] = as
		}
		c.heapHavocKey(st, k)
	}
	for _, o := range sortedVars(ms.vars) {
		if _, isCell := st.cells[o]; isCell {
			continue
		}
		if _, live := st.vars[o]; !live {
			continue // declared inside the loop
		}
		v := c.havoc(st, "lv_"+o.Name(), o.Type())
		c.refFact(st, v)
		st.vars[o] = v
	}
	// ghosts bound or counted at program points may change in the body: unknown at the loop head (invariants say more)
	if c.prefix == "" && c.unit.Contract != nil {
		for _, pg := range c.unit.Contract.PointGhosts {
			isCallPoint := strings.HasPrefix(pg.Point, "before call ") || strings.HasPrefix(pg.Point, "after call ")
			if ms.points != nil && isCallPoint && !ms.points[pg.Point] {
				continue // its point is not inside this loop
			}
			if v, ok := st.ghost[pg.Name]; ok {
				st.ghost[pg.Name] = Val{T: c.fresh("pg_"+pg.Name, v.S), S: v.S}
			}
		}
	}
	// allocation pointer may have advanced
	na := c.fresh("alloc", "Int")
	st.assume("(>= " + na + " " + c.allocCur(st) + ")")
	st.ghost["$alloc"] = Val{T: na, S: "Int"}
}

func (c *Ctx) invEnv(st *State, pos token.Pos, extra map[string]Val) *SpecEnv {
	b := map[string]Val{}
	for k, v := range extra {
		b[k] = v
	}
	return &SpecEnv{c: c, st: st, old: st.old, bound: b, pkg: c.pkg.Types, pos: pos}
}

// checkInvs asserts (phase "init"/"step") or assumes (phase "") the loop invariants.
func (c *Ctx) checkInvs(st *State, id string, ls *LoopSpec, pos token.Pos, extra map[string]Val, phase string) {
	if ls == nil {
		return
	}
	env := c.invEnv(st, pos, extra)
	if phase == "init" {
		for _, g := range ls.Ghosts {
			v, err := env.trVal(g.Expr)
			if err != nil {
				c.abort("loop %s ghost %s: %v", id, g.Name, err)
				return
			}
			if v.S != "?nil" {
				n := c.fresh("g_"+g.Name, v.S)
				st.assume(eq(n, v.T))
				v.T = n
			}
			if isSliceSort(v.S) {
				st.assume("(>= " + sLen(v) + " 0)")
			}
			st.ghost[g.Name] = v
		}
	}
	for i, inv := range ls.Invariants {
		t, err := env.trBool(inv.Expr)
		if err != nil {
			if inv.Optional && strings.Contains(err.Error(), "unknown identifier") {
				c.note(fmt.Sprintf("optional invariant %d of loop %s dropped: %v", i+1, id, err))
				continue
			}
			c.abort("loop %s invariant %d: %v", id, i+1, err)
			return
		}
		if phase == "" {
			st.assume(t)
		} else {
			nm := "inv"
			if inv.Optional {
				nm = "optinv" // proof hint: may vanish with the local it mentions, never part of the claim
			}
			nb := len(c.obls)
			c.addObl(st, "inv", fmt.Sprintf("%s.%s.%d.%s", nm, id, i+1, phase), t, fmt.Sprintf("loop %s invariant `%s` (%s)", id, inv.Src, phase))
			if len(inv.Props) > 0 && len(c.obls) > nb {
				c.obls[len(c.obls)-1].Props = inv.Props
			}
		}
	}
	if phase == "" {
		// per-iteration snapshots: bound at the head of the arbitrary iteration (and at the exit state)
		for _, g := range ls.IterGhosts {
			v, err := env.trVal(g.Expr)
			if err != nil {
				c.abort("loop %s iter %s: %v", id, g.Name, err)
				return
			}
			if v.S != "?nil" {
				n := c.fresh("it_"+g.Name, v.S)
				st.assume(eq(n, v.T))
				v.T = n
			}
			st.ghost[g.Name] = v
		}
	}
}

func (c *Ctx) loopMods(body ...ast.Node) *modSet {
	ms := newModSet()
	ms.points = map[string]bool{}
	for _, b := range body {
		if b != nil && !isNilNode(b) {
			c.collectMods(c.info, b, ms, 0)
			if c.prefix == "" {
				ast.Inspect(b, func(n ast.Node) bool {
					if call, ok := n.(*ast.CallExpr); ok {
						if k, ok := c.callOrd[call]; ok {
							nm := fmt.Sprintf("call %s#%d", types.ExprString(call.Fun), k)
							ms.points["before "+nm] = true
							ms.points["after "+nm] = true
						}
					}
					return true
				})
			}
		}
	}
	return ms
}

func isNilNode(n ast.Node) bool {
	switch x := n.(type) {
	case ast.Stmt:
		return x == nil
	case ast.Expr:
		return x == nil
	}
	return n == nil
}

// afterLoop applies `assert @ after loop <id>: e` / `assume @ after loop <id>: e` clauses (proof hints:
// asserted as obligations, then available as facts) to every state that leaves the loop.
func (c *Ctx) afterLoop(id string, pos token.Pos, next func(*State)) func(*State) {
	return func(s *State) {
		c.pointClauses(s, "after loop "+id, pos)
		next(s)
	}
}

func (c *Ctx) pointClauses(s *State, point string, pos token.Pos) {
	c.pointClausesX(s, point, pos, nil)
}

func (c *Ctx) pointClausesX(s *State, point string, pos token.Pos, extra map[string]Val) {
	if c.prefix != "" || c.unit.Contract == nil {
		return
	}
	for _, pg := range c.unit.Contract.PointGhosts {
		if pg.Point != point {
			continue
		}
		env := c.invEnv(s, pos, extra)
		if pg.Kind == "let" {
			v, err := env.trVal(pg.Expr)
			if err != nil {
				c.abort("let %s @ %s: %v", pg.Name, point, err)
				return
			}
			nm := c.fresh("pg_"+pg.Name, v.S)
			s.assume(eq(nm, v.T))
			v.T = nm
			s.ghost[pg.Name] = v
		} else {
			t, err := env.trBool(pg.Cond)
			if err != nil {
				c.abort("count %s @ %s: %v", pg.Name, point, err)
				return
			}
			cur := s.ghost[pg.Name]
			nm := c.fresh("pg_"+pg.Name, "Int")
			s.assume("(= " + nm + " (ite " + t + " (+ " + cur.T + " 1) " + cur.T + "))")
			s.ghost[pg.Name] = Val{T: nm, S: "Int"}
		}
	}
	n := 0
	for _, pc := range c.unit.Contract.Points {
		if pc.Point != point {
			continue
		}
		n++
		env := c.invEnv(s, pos, extra)
		t, err := env.trBool(pc.C.Expr)
		if err != nil {
			if pc.C.Optional && strings.Contains(err.Error(), "unknown identifier") {
				c.note(fmt.Sprintf("optional %s at %s dropped: %v", pc.C.Kind, point, err))
				continue
			}
			c.abort("%s @ %s: %v", pc.C.Kind, point, err)
			return
		}
		if pc.C.Kind == "assert" {
			nm := "assert"
			if pc.C.Optional {
				nm = "optassert"
			}
			nb := len(c.obls)
			c.addObl(s, "assert", fmt.Sprintf("%s@%s.%d", nm, strings.ReplaceAll(point, " ", "_"), n), t, "proof step `"+pc.C.Src+"` at "+point)
			if len(pc.C.Props) > 0 && len(c.obls) > nb {
				c.obls[len(c.obls)-1].Props = pc.C.Props
			}
		} else {
			c.note("assume clause at " + point + ": " + pc.C.Src)
		}
		s.assume(t)
	}
}

// noExit: when the loop contract says `noexit`, leaving the loop by break or return is an obligation failure
// (the loop must keep serving: e.g. a listener must survive a bad message).
func (c *Ctx) noExit(id string, ls *LoopSpec, brk func(*State), ret func(*State, []Val)) (func(*State), func(*State, []Val)) {
	if ls == nil || !ls.NoExit {
		return brk, ret
	}
	b2 := func(s *State) {
		c.addObl(s, "noexit", "loop."+id+".noexit.break", "false", "loop "+id+" is left by break (it must only end when its range is exhausted)")
		brk(s)
	}
	r2 := func(s *State, vs []Val) {
		c.addObl(s, "noexit", "loop."+id+".noexit.return", "false", "loop "+id+" is left by return (it must only end when its range is exhausted)")
		ret(s, vs)
	}
	return b2, r2
}

func (c *Ctx) execFor(st *State, x *ast.ForStmt, k konts) {
	{
		id := c.loopID[x]
		k.next = c.afterLoop(id, x.End(), k.next)
	}
	start := func(st *State) {
		id, ls := c.loopSpec(x)
		pos := x.Body.Lbrace + 1
		if ls == nil {
			c.note("loop " + id + " has no invariant: cut with `true`")
		}
		c.checkInvs(st, id, ls, pos, nil, "init")
		var nodes []ast.Node
		nodes = append(nodes, x.Body)
		if x.Post != nil {
			nodes = append(nodes, x.Post)
		}
		if x.Cond != nil {
			nodes = append(nodes, x.Cond)
		}
		ms := c.loopMods(nodes...)
		if ls != nil && ls.HasMod {
			ms = c.explicitMods(st, ls, ms)
		}
		c.havocMods(st, ms)
		c.checkInvs(st, id, ls, pos, nil, "")
		cond := "true"
		if x.Cond != nil {
			cond = c.eval(st, x.Cond).T
		}
		// exit path
		if x.Cond != nil {
			sB := st.clone()
			sB.assume(not(cond))
			k.next(sB)
		}
		// iteration path
		sA := st
		sA.assume(cond)
		after := func(s *State) {
			done := func(s2 *State) {
				c.checkInvs(s2, id, ls, pos, nil, "step")
				c.paths++
			}
			if x.Post != nil {
				c.exec(s, x.Post, konts{next: done, ret: k.ret})
			} else {
				done(s)
			}
		}
		c.pointClauses(sA, "loop "+id+" body", pos)
		brk, ret := c.noExit(id, ls, k.next, k.ret)
		c.execBlock(sA, x.Body.List, konts{next: after, cont: after, brk: brk, ret: ret, retDone: k.ret})
	}
	if x.Init != nil {
		k2 := k
		k2.next = start
		c.exec(st, x.Init, k2)
		return
	}
	start(st)
}

// explicitMods: `loop k modifies` replaces the syntactic heap set (variables stay syntactic).
func (c *Ctx) explicitMods(st *State, ls *LoopSpec, syn *modSet) *modSet {
	ms := newModSet()
	ms.vars = syn.vars
	env := c.invEnv(st, token.NoPos, nil)
	for _, item := range ls.Modifies {
		keys, _, err := c.resolveMod(env, item, nil)
		if err != nil {
			c.abort("loop modifies %s: %v", item, err)
			return syn
		}
		if keys == nil {
			ms.all = true
		}
		for _, k := range keys {
			ms.keys[k] = heapSorts[k]
		}
	}
	return ms
}

func (c *Ctx) execRange(st *State, x *ast.RangeStmt, k konts) {
	id, ls := c.loopSpec(x)
	k.next = c.afterLoop(id, x.End(), k.next)
	pos := x.Body.Lbrace + 1
	if ls == nil {
		c.note("loop " + id + " has no invariant: cut with `true`")
	}
	xt := c.typeOf(x.X)
	coll := c.eval(st, x.X)
	define := x.Tok == token.DEFINE
	setVar := func(s *State, e ast.Expr, v Val) {
		if e == nil {
			return
		}
		if id, ok := e.(*ast.Ident); ok {
			if id.Name == "_" {
				return
			}
			if define {
				c.declareVar(s, id, v)
				return
			}
		}
		c.assignTo(s, e, v)
	}
	ms := c.loopMods(x.Body)
	if ls != nil && ls.HasMod {
		ms = c.explicitMods(st, ls, ms)
	}
	intT := types.Typ[types.Int]
	switch u := xt.Underlying().(type) {
	case *types.Slice, *types.Array:
		// hidden index
		coll = c.named(st, "coll", coll)
		extra := map[string]Val{"$i": {T: "0", S: "Int", GT: intT}, "$coll": coll}
		bindKey := func(s *State, i string) {
			if x.Key != nil {
				setVar(s, x.Key, Val{T: i, S: "Int", GT: intT})
			}
		}
		s0 := st
		bindKey(s0, "0")
		c.checkInvs(s0, id, ls, pos, extra, "init")
		c.havocMods(st, ms)
		iv := c.fresh("ri", "Int")
		st.assume("(<= 0 " + iv + ")")
		st.assume("(<= " + iv + " " + sLen(coll) + ")")
		extra = map[string]Val{"$i": {T: iv, S: "Int", GT: intT}, "$coll": coll}
		bindKey(st, iv)
		c.checkInvs(st, id, ls, pos, extra, "")
		// exit
		sB := st.clone()
		sB.assume("(= " + iv + " " + sLen(coll) + ")")
		k.next(sB)
		// iteration
		sA := st
		sA.assume("(< " + iv + " " + sLen(coll) + ")")
		if x.Value != nil {
			ev := Val{T: sAt(coll, iv), S: sliceElemSort(coll.S), GT: elemType(xt)}
			for _, f := range c.typeFacts(ev) {
				sA.assume(f)
			}
			c.refFact(sA, ev)
			setVar(sA, x.Value, ev)
		}
		after := func(s *State) {
			nx := "(+ " + iv + " 1)"
			bindKey(s, nx)
			c.checkInvs(s, id, ls, pos, map[string]Val{"$i": {T: nx, S: "Int", GT: intT}, "$coll": coll}, "step")
			c.paths++
		}
		c.pointClauses(sA, "loop "+id+" body", pos)
		brk, ret := c.noExit(id, ls, k.next, k.ret)
		c.execBlock(sA, x.Body.List, konts{next: after, cont: after, brk: brk, ret: ret, retDone: k.ret})
	case *types.Map:
		mk := c.mapHeap(xt)
		setS := arraySort(mk.kS, "Bool")
		modifiesMap := ms.all
		if _, ok := ms.keys[mk.dom]; ok {
			modifiesMap = true
		}
		empty := c.constArr(mk.kS, "Bool", "false")
		extra := map[string]Val{"$seen": {T: empty, S: setS}, "$n": {T: "0", S: "Int"}}
		c.checkInvs(st, id, ls, pos, extra, "init")
		c.havocMods(st, ms)
		seen := c.fresh("seen", setS)
		n := c.fresh("rn", "Int")
		st.assume("(>= " + n + " 0)")
		extra = map[string]Val{"$seen": {T: seen, S: setS}, "$n": {T: n, S: "Int"}}
		dom := c.mapDom(st, coll)
		if !modifiesMap {
			c.nfr++
			q := fmt.Sprintf("k!q%d", c.nfr)
			st.assume(fmt.Sprintf("(forall ((%s %s)) (! (=> (select %s %s) (select %s %s)) :pattern ((select %s %s))))", q, mk.kS, seen, q, dom, q, seen, q))
			st.assume("(<= " + n + " " + c.mapCard(st, coll) + ")")
			c.mapFacts(st, coll)
		}
		c.checkInvs(st, id, ls, pos, extra, "")
		// exit: every key seen
		sB := st.clone()
		c.nfr++
		q := fmt.Sprintf("k!q%d", c.nfr)
		sB.assume(fmt.Sprintf("(forall ((%s %s)) (! (=> (select %s %s) (select %s %s)) :pattern ((select %s %s))))", q, mk.kS, dom, q, seen, q, dom, q))
		if !modifiesMap {
			sB.assume("(= " + n + " " + c.mapCard(sB, coll) + ")")
		}
		k.next(sB)
		// iteration: some unseen key
		sA := st
		kv := c.havoc(sA, "rk", u.Key())
		sA.assume("(not (= " + coll.T + " 0))")
		sA.assume(sel(dom, kv.T))
		sA.assume(not(sel(seen, kv.T)))
		if !modifiesMap {
			sA.assume("(< " + n + " " + c.mapCard(sA, coll) + ")")
		}
		setVar(sA, x.Key, kv)
		if x.Value != nil {
			vv := Val{T: sel(c.mapValArr(sA, coll), kv.T), S: mk.vS, GT: u.Elem()}
			for _, f := range c.typeFacts(vv) {
				sA.assume(f)
			}
			c.refFact(sA, vv)
			setVar(sA, x.Value, vv)
		}
		after := func(s *State) {
			ex := map[string]Val{"$seen": {T: store(seen, kv.T, "true"), S: setS}, "$n": {T: "(+ " + n + " 1)", S: "Int"}}
			c.checkInvs(s, id, ls, pos, ex, "step")
			c.paths++
		}
		c.pointClauses(sA, "loop "+id+" body", pos)
		brk, ret := c.noExit(id, ls, k.next, k.ret)
		c.execBlock(sA, x.Body.List, konts{next: after, cont: after, brk: brk, ret: ret, retDone: k.ret})
	case *types.Chan:
		c.checkInvs(st, id, ls, pos, nil, "init")
		c.havocMods(st, ms)
		c.checkInvs(st, id, ls, pos, nil, "")
		sB := st.clone()
		k.next(sB)
		sA := st
		v := c.havoc(sA, "rcv", u.Elem())
		c.refFact(sA, v)
		setVar(sA, x.Key, v)
		after := func(s *State) {
			c.checkInvs(s, id, ls, pos, nil, "step")
			c.paths++
		}
		c.pointClauses(sA, "loop "+id+" body", pos)
		brk, ret := c.noExit(id, ls, k.next, k.ret)
		c.execBlock(sA, x.Body.List, konts{next: after, cont: after, brk: brk, ret: ret, retDone: k.ret})
	default:
		c.abort("range over %s not supported at %s", xt, c.pos(x))
	}
}

// contractMods adds the heap keys a callee contract may modify.
func (c *Ctx) contractMods(fn *types.Func, ct *FuncContract, ms *modSet) {
	if !ct.HasMod {
		ms.all = true
		return
	}
	env := &SpecEnv{c: c, st: newState(), bound: map[string]Val{}}
	if !ct.Extern {
		env.pkg = fn.Pkg()
	}
	// bind names to dummy values carrying the Go types so that x.f items resolve
	recvName, pnames, _ := c.calleeNames(fn, ct)
	sig := fn.Type().(*types.Signature)
	if sig.Recv() != nil && recvName != "" {
		env.bound[recvName] = Val{T: "dummy", S: c.sortOf(sig.Recv().Type()), GT: sig.Recv().Type()}
	}
	for i := 0; i < sig.Params().Len() && i < len(pnames); i++ {
		env.bound[pnames[i]] = Val{T: "dummy", S: c.sortOf(sig.Params().At(i).Type()), GT: sig.Params().At(i).Type()}
	}
	for _, item := range ct.Modifies {
		if c.condModStaticallyFalse(item, pnames) {
			continue
		}
		keys, _, err := c.resolveMod(env, item, fn)
		if err != nil || keys == nil {
			ms.all = true
			return
		}
		for _, k := range keys {
			ms.keys[k] = heapSorts[k]
		}
	}
}

var condTypeisRe = regexp.MustCompile(`^when\s+typeis\((\w+),\s*"([^"]+)"\)\s*:`)

// condModStaticallyFalse: `when typeis(p, "T") : item` cannot apply at a call site whose argument for p has a
// concrete (non-interface) static type other than T, or is &x with x of a type other than the pointee.
func (c *Ctx) condModStaticallyFalse(item string, pnames []string) bool {
	m := condTypeisRe.FindStringSubmatch(strings.TrimSpace(item))
	if m == nil || c.modsCall == nil || c.modsInfo == nil {
		return false
	}
	idx := -1
	for i, n := range pnames {
		if n == m[1] {
			idx = i
		}
	}
	if idx < 0 || idx >= len(c.modsCall.Args) {
		return false
	}
	tv, ok := c.modsInfo.Types[c.modsCall.Args[idx]]
	if !ok || tv.Type == nil || types.IsInterface(tv.Type) {
		return false
	}
	want := m[2]
	var wt types.Type
	if strings.HasPrefix(want, "*") {
		if et := c.eng.lookupNamed(want[1:]); et != nil {
			wt = types.NewPointer(et)
		}
	} else {
		wt = c.eng.lookupNamed(want)
	}
	if wt == nil {
		return false
	}
	return !types.Identical(tv.Type, wt)
}

// sortedVars: deterministic order (source position) for iteration over variable sets, so that fresh names — and
// with them the text of the SMT queries — do not depend on Go's map iteration order.
func sortedVars(m map[*types.Var]bool) []*types.Var {
	out := make([]*types.Var, 0, len(m))
	for o := range m {
		out = append(out, o)
	}
	sort.Slice(out, func(i, j int) bool {
		if out[i].Pos() != out[j].Pos() {
			return out[i].Pos() < out[j].Pos()
		}
		return out[i].Name() < out[j].Name()
	})
	return out
}
