package main

import (
	"crypto/sha1"
	"fmt"
	"go/ast"
	"go/token"
	"go/types"
	"math/big"
	"strings"

	"golang.org/x/tools/go/packages"
)

type Sort = string

// Val is a symbolic value: an SMT term, its sort, and (when it comes from Go
// code) its Go type.
type Val struct {
	T  string
	S  Sort
	GT types.Type
}

type Obligation struct {
	Name   string // stable name, no line numbers
	Kind   string
	Func   string // pkgpath::key
	Props  []string
	PC     []string
	Goal   string
	Desc   string
	PathNo int
	Taint  []string // uncontracted callees havoc'd earlier on the path (a `sat` after one may be spurious)

	// filled by the solver stage
	Status  string // "unsat" (discharged), "sat", "unknown", "timeout", "error"
	Solver  string
	Seconds float64
	Model   string
	Output  string
	SMTFile string
}

// Ctx is the per-function-unit verification context. Declarations are shared
// by all paths (append-only).
type Ctx struct {
	aliases  map[types.Object][]types.Object // local slice variables related by a re-slice (x = y[a:b])
	modsCall *ast.CallExpr                   // call site whose contract modifies are being collected (loop mod sets)
	modsInfo *types.Info
	eng      *Engine
	unit     *FuncUnit
	pkg      *packages.Package
	info     *types.Info
	decls    []string
	seen     map[string]bool
	nfr      int
	obls     []*Obligation
	anteCov  []*Obligation     // reachability covers for the antecedents of `ensures A ==> B` clauses
	lits     map[string]string // string literal -> const
	litOrder []string
	notes    map[string]bool
	paths    int
	ord      map[ast.Node]string // safety ordinals "bounds#3"
	loopID   map[ast.Node]string
	callOrd  map[ast.Node]int
	prefix   string // obligation name prefix for inlined code
	boxed    map[types.Object]bool
	aborted  string
	funcKey  string
}

func newCtx(e *Engine, u *FuncUnit) *Ctx {
	c := &Ctx{eng: e, unit: u, pkg: u.Pkg, info: u.Pkg.TypesInfo, seen: map[string]bool{}, lits: map[string]string{},
		notes: map[string]bool{}, ord: map[ast.Node]string{}, loopID: map[ast.Node]string{}, callOrd: map[ast.Node]int{}, boxed: map[types.Object]bool{}}
	c.funcKey = u.Pkg.PkgPath + "::" + u.Key
	c.decl("sort:Str", "(declare-sort Str 0)")
	c.decl("fun:len!Str", "(declare-fun len!Str (Str) Int)")
	c.decl("ax:len!Str", "(assert (forall ((s Str)) (! (>= (len!Str s) 0) :pattern ((len!Str s)))))")
	c.decl("sort:Iface", "(declare-datatypes ((Iface 0)) (((mkI (itag Int) (iref Int)))))")
	return c
}

func (c *Ctx) note(s string) { c.notes[s] = true }

func (c *Ctx) decl(key, text string) {
	if c.seen[key] {
		return
	}
	c.seen[key] = true
	c.decls = append(c.decls, text)
}

func mangle(s string) string {
	r := strings.NewReplacer("(", "", ")", "", " ", "_", "<", "_", ">", "", ",", "_", "*", "p", "/", "_", ".", "_", "-", "_", "[", "", "]", "", ":", "_", "{", "", "}", "", ";", "_", "\"", "")
	return r.Replace(s)
}

func (c *Ctx) fresh(prefix string, s Sort) string {
	c.nfr++
	n := fmt.Sprintf("%s!%d", prefix, c.nfr)
	c.ensureSort(s)
	c.decls = append(c.decls, fmt.Sprintf("(declare-const %s %s)", n, s))
	return n
}

func (c *Ctx) declFun(name string, args []Sort, ret Sort) {
	for _, a := range args {
		c.ensureSort(a)
	}
	c.ensureSort(ret)
	c.decl("fun:"+name, fmt.Sprintf("(declare-fun %s (%s) %s)", name, strings.Join(args, " "), ret))
}

func arraySort(k, v Sort) Sort { return "(Array " + k + " " + v + ")" }

// ensureSort declares datatypes / uninterpreted sorts on demand.
func (c *Ctx) ensureSort(s Sort) {
	switch {
	case s == "Int" || s == "Bool" || s == "Str" || s == "Iface" || s == "Real":
		return
	case strings.HasPrefix(s, "(Array "):
		k, v := splitArraySort(s)
		c.ensureSort(k)
		c.ensureSort(v)
	case strings.HasPrefix(s, "Slice_"):
		if c.seen["sort:"+s] {
			return
		}
		// element sort is recorded (globally) at creation time
		if el, ok := sliceElem[s]; ok {
			c.sliceSortOf(el)
		}
	case strings.HasPrefix(s, "Seq_"):
		if c.seen["sort:"+s] {
			return
		}
		if el, ok := seqElem[s]; ok {
			c.seqSort(el)
		}
	default:
		if strings.HasPrefix(s, "V_") && !c.seen["sort:"+s] {
			if t := c.eng.lookupVSort(s); t != nil {
				c.sortOf(t)
				return
			}
		}
		c.decl("sort:"+s, fmt.Sprintf("(declare-sort %s 0)", s))
	}
}

func splitArraySort(s Sort) (Sort, Sort) {
	// "(Array K V)"
	inner := s[len("(Array ") : len(s)-1]
	depth := 0
	for i := 0; i < len(inner); i++ {
		switch inner[i] {
		case '(':
			depth++
		case ')':
			depth--
		case ' ':
			if depth == 0 {
				return inner[:i], inner[i+1:]
			}
		}
	}
	return inner, ""
}

var sliceElem = map[string]Sort{}

func sliceElemSort(s Sort) Sort { return sliceElem[s] }
func sLen(v Val) string         { return "(slen_" + v.S[len("Slice_"):] + " " + v.T + ")" }
func sArr(v Val) string         { return "(sarr_" + v.S[len("Slice_"):] + " " + v.T + ")" }
func sNil(v Val) string         { return "(snil_" + v.S[len("Slice_"):] + " " + v.T + ")" }
func isSliceSort(s Sort) bool   { return strings.HasPrefix(s, "Slice_") }

// sortOf maps a Go type to an SMT sort.
func (c *Ctx) sortOf(t types.Type) Sort {
	if t == nil {
		return "Int"
	}
	switch u := t.Underlying().(type) {
	case *types.Basic:
		switch {
		case u.Info()&types.IsBoolean != 0:
			return "Bool"
		case u.Info()&types.IsString != 0:
			return "Str"
		case u.Info()&types.IsFloat != 0:
			return "Real"
		default:
			return "Int"
		}
	case *types.Pointer, *types.Chan, *types.Signature, *types.Map:
		return "Int"
	case *types.Interface:
		return "Iface"
	case *types.Slice:
		return c.sliceSortOf(c.sortOf(u.Elem()))
	case *types.Array:
		return c.sliceSortOf(c.sortOf(u.Elem()))
	case *types.Struct:
		if a, ok := t.(*types.Alias); ok {
			return c.sortOf(types.Unalias(a))
		}
		name := ""
		if n, ok := t.(*types.Named); ok {
			pk := ""
			if n.Obj().Pkg() != nil {
				pk = n.Obj().Pkg().Name() + "_"
			}
			name = "V_" + pk + n.Obj().Name()
		} else {
			// anonymous struct: name by field names and types
			var fs []string
			for i := 0; i < u.NumFields(); i++ {
				fs = append(fs, u.Field(i).Name()+"_"+mangle(types.TypeString(u.Field(i).Type(), nil)))
			}
			name = "V_anon_" + mangle(strings.Join(fs, "_"))
			if len(name) > 80 {
				name = fmt.Sprintf("V_anon_%x", sha1sum(name))
			}
		}
		c.declStruct(name, u)
		return name
	case *types.Tuple:
		return "Int"
	}
	return "Int"
}

func sha1sum(s string) []byte {
	h := sha1.Sum([]byte(s))
	return h[:8]
}

// structFieldName: selector name of field i (blank fields get an index)
func structFieldName(u *types.Struct, i int) string {
	n := u.Field(i).Name()
	if n == "_" {
		return fmt.Sprintf("blank%d", i)
	}
	return n
}

// declStruct declares the datatype of a struct value sort (fields first, so nested sorts exist).
func (c *Ctx) declStruct(name string, u *types.Struct) {
	if c.seen["sort:"+name] {
		return
	}
	c.seen["sort:"+name] = true
	var fs []string
	for i := 0; i < u.NumFields(); i++ {
		fsort := c.sortOf(u.Field(i).Type())
		fs = append(fs, fmt.Sprintf("(fld!%s!%s %s)", name, structFieldName(u, i), fsort))
	}
	structTypes[name] = u
	c.decls = append(c.decls, fmt.Sprintf("(declare-datatypes ((%s 0)) (((mk!%s %s))))", name, name, strings.Join(fs, " ")))
}

var structTypes = map[string]*types.Struct{}

// mkStruct builds a struct value from field values (in field order).
func mkStruct(s Sort, vals []string) string {
	if len(vals) == 0 {
		return "mk!" + s
	}
	return "(mk!" + s + " " + strings.Join(vals, " ") + ")"
}

func pow2(n uint) *big.Int { return new(big.Int).Lsh(big.NewInt(1), n) }

// intRange returns lo, hi (inclusive) for an integer basic type, or ok=false.
func intRange(t types.Type) (lo, hi *big.Int, ok bool) {
	b, isb := t.Underlying().(*types.Basic)
	if !isb || b.Info()&types.IsInteger == 0 {
		return nil, nil, false
	}
	bits := uint(64)
	switch b.Kind() {
	case types.Int8, types.Uint8:
		bits = 8
	case types.Int16, types.Uint16:
		bits = 16
	case types.Int32, types.Uint32:
		bits = 32
	case types.UntypedInt, types.UntypedRune:
		return nil, nil, false
	}
	if b.Info()&types.IsUnsigned != 0 {
		return big.NewInt(0), new(big.Int).Sub(pow2(bits), big.NewInt(1)), true
	}
	return new(big.Int).Neg(pow2(bits - 1)), new(big.Int).Sub(pow2(bits-1), big.NewInt(1)), true
}

func smtInt(n *big.Int) string {
	if n.Sign() < 0 {
		return "(- " + new(big.Int).Neg(n).String() + ")"
	}
	return n.String()
}

// typeFacts returns assumptions that hold for any value v of Go type t
// (integer ranges, non-negative lengths).
func (c *Ctx) typeFacts(v Val) []string {
	var out []string
	if v.GT == nil {
		return nil
	}
	if lo, hi, ok := intRange(v.GT); ok {
		out = append(out, fmt.Sprintf("(and (<= %s %s) (<= %s %s))", smtInt(lo), v.T, v.T, smtInt(hi)))
	}
	if isSliceSort(v.S) {
		out = append(out, fmt.Sprintf("(>= %s 0)", sLen(v)), fmt.Sprintf("(<= %s 9223372036854775807)", sLen(v)), fmt.Sprintf("(=> %s (= %s 0))", sNil(v), sLen(v)))
	}
	if v.S == "Str" {
		out = append(out, fmt.Sprintf("(>= (len!Str %s) 0)", v.T), fmt.Sprintf("(<= (len!Str %s) 9223372036854775807)", v.T))
	}
	if v.S == "Iface" {
		out = append(out, fmt.Sprintf("(>= (itag %s) 0)", v.T), fmt.Sprintf("(=> (= (itag %s) 0) (= (iref %s) 0))", v.T, v.T))
	}
	if _, isPtr := v.GT.Underlying().(*types.Pointer); isPtr {
		out = append(out, fmt.Sprintf("(>= %s 0)", v.T))
	}
	if _, isMap := v.GT.Underlying().(*types.Map); isMap {
		out = append(out, fmt.Sprintf("(>= %s 0)", v.T))
	}
	return out
}

func (c *Ctx) strLit(s string) string {
	if n, ok := c.lits[s]; ok {
		return n
	}
	n := fmt.Sprintf("lit!%d", len(c.lits))
	c.lits[s] = n
	c.litOrder = append(c.litOrder, s)
	c.decls = append(c.decls, fmt.Sprintf("(declare-const %s Str) ; %q", n, s))
	c.decls = append(c.decls, fmt.Sprintf("(assert (= (len!Str %s) %d))", n, len(s)))
	return n
}

// litAxioms: distinctness of all string literals seen, emptiness.
func (c *Ctx) litAxioms() []string {
	var out []string
	if len(c.litOrder) > 1 {
		var ns []string
		for _, s := range c.litOrder {
			ns = append(ns, c.lits[s])
		}
		out = append(out, "(assert (distinct "+strings.Join(ns, " ")+"))")
	}
	return out
}

func (c *Ctx) pos(n ast.Node) string {
	if n == nil {
		return ""
	}
	p := c.eng.fset.Position(n.Pos())
	return fmt.Sprintf("%s:%d", p.Filename, p.Line)
}

func (c *Ctx) position(p token.Pos) string {
	q := c.eng.fset.Position(p)
	return fmt.Sprintf("%s:%d", q.Filename, q.Line)
}

func (c *Ctx) addObl(st *State, kind, name, goal, desc string) {
	if goal == "true" {
		return
	}
	if c.unit.Contract != nil && c.unit.Contract.Flags["no-safety"] {
		switch kind {
		case "nil", "nilcall", "bounds", "mapwrite", "make", "div", "conv", "typeassert", "panic", "lock":
			c.note("flag no-safety: run-time safety obligations of this unit are not generated (only its contract clauses)")
			return
		}
	}
	full := c.funcKey + "." + c.prefix + name
	o := &Obligation{Name: full, Kind: kind, Func: c.funcKey, PC: append([]string(nil), st.pc...), Goal: goal, Desc: desc, PathNo: c.paths, Taint: append([]string(nil), st.taint...)}
	if c.unit.Contract != nil {
		o.Props = c.unit.Contract.Props
		if len(c.unit.Contract.SafetyProps) > 0 {
			switch kind {
			case "nil", "nilcall", "bounds", "mapwrite", "make", "div", "conv", "typeassert", "panic":
				o.Props = c.unit.Contract.SafetyProps
			case "lock":
				// a leaked lock wedges every later user of the mutex: it counts for every property of the unit
			}
		}
	}
	c.obls = append(c.obls, o)
}

func exprString(fset *token.FileSet, e ast.Expr) string {
	return types.ExprString(e)
}
