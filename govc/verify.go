package main

import (
	"fmt"
	"go/ast"
	"go/token"
	"go/types"
	"sort"
	"strings"
)

type UnitResult struct {
	Key      string
	Obls     []*Obligation
	Notes    []string
	Aborted  string
	Paths    int
	Contract *FuncContract
	AnteCov  []*Obligation
}

// findBoxed: locals whose address is taken, or that are assigned inside a
// function literal (shared with a closure).
func findBoxed(body ast.Node, info *types.Info, boxed map[types.Object]bool) {
	var lits []*ast.FuncLit
	ast.Inspect(body, func(n ast.Node) bool {
		switch x := n.(type) {
		case *ast.UnaryExpr:
			if x.Op == token.AND {
				if id, ok := unparen(x.X).(*ast.Ident); ok {
					if o, ok := info.ObjectOf(id).(*types.Var); ok && !o.IsField() {
						boxed[o] = true
					}
				}
			}
		case *ast.FuncLit:
			lits = append(lits, x)
		}
		return true
	})
	_ = lits
}

func (c *Ctx) bindParams(st *State, ft *ast.FuncType, recv *ast.FieldList) {
	bind := func(fl *ast.FieldList, isRecv bool) {
		if fl == nil {
			return
		}
		for _, fld := range fl.List {
			for _, n := range fld.Names {
				o, ok := c.info.Defs[n].(*types.Var)
				if !ok || n.Name == "_" {
					continue
				}
				v := c.havoc(st, "in_"+n.Name, o.Type())
				c.refFact(st, v)
				if c.boxed[o] {
					ref := c.alloc(st)
					st.cells[o] = ref
					c.cellWrite(st, ref, o.Type(), v)
				} else {
					st.vars[o] = v
				}
				if isRecv {
					if _, isPtr := o.Type().Underlying().(*types.Pointer); isPtr {
						st.assume("(not (= " + v.T + " 0))")
						c.note("receiver assumed non-nil")
					}
				}
			}
		}
	}
	bind(recv, true)
	bind(ft.Params, false)
}

func (e *Engine) verifyUnit(u *FuncUnit) *UnitResult {
	c := newCtx(e, u)
	res := &UnitResult{Key: c.funcKey, Contract: u.Contract}
	var body *ast.BlockStmt
	var ftype *ast.FuncType
	var recv *ast.FieldList
	if u.Lit != nil {
		body, ftype = u.Lit.Body, u.Lit.Type
	} else {
		body, ftype, recv = u.Decl.Body, u.Decl.Type, u.Decl.Recv
	}
	ot := buildOrdinals(body, c.info)
	c.ord, c.loopID, c.callOrd = ot.ord, ot.loopID, ot.calls
	findBoxed(body, c.info, c.boxed)

	st := newState()
	c.allocCur(st)
	c.bindParams(st, ftype, recv)
	// named results start at zero
	var resObjs []*types.Var
	var resTypes []types.Type
	if ftype.Results != nil {
		for _, fld := range ftype.Results.List {
			t := c.typeOf(fld.Type)
			if len(fld.Names) == 0 {
				resTypes = append(resTypes, t)
			}
			for _, n := range fld.Names {
				resTypes = append(resTypes, t)
				if o, ok := c.info.Defs[n].(*types.Var); ok {
					st.vars[o] = c.zero(o.Type())
					resObjs = append(resObjs, o)
				}
			}
		}
	}
	ct := u.Contract
	entryPos := body.Lbrace + 1
	exitPos := body.Rbrace
	// touch heap locations mentioned by the contract in the entry state so that old() sees entry values
	st.old = nil
	if ct != nil {
		env := &SpecEnv{c: c, st: st, bound: map[string]Val{}, pkg: c.pkg.Types, pos: entryPos}
		for _, g := range ct.Ghosts {
			v, err := env.trVal(g.Expr)
			if err != nil {
				c.abort("ghost %s: %v", g.Name, err)
				break
			}
			if v.S != "?nil" {
				// named constant so that a counterexample model shows the entry value
				n := c.fresh("g_"+g.Name, v.S)
				st.assume(eq(n, v.T))
				v.T = n
			}
			c.refFact(st, v) // references existing at entry are below the allocation pointer
			if isSliceSort(v.S) {
				// a ghost that denotes a Go slice value is well formed
				st.assume("(>= " + sLen(v) + " 0)")
			}
			st.ghost[g.Name] = v
		}
		// a clause attached to a call point that the function no longer has (renamed receiver, call moved into a
		// helper) would silently never fire: a counter would stay 0, a bound ghost unconstrained. The contract does
		// not bind then, which is an undecided unit, never a verdict.
		callPoints := map[string]bool{}
		for n, k := range c.callOrd {
			if call, ok := n.(*ast.CallExpr); ok {
				nm := fmt.Sprintf("call %s#%d", types.ExprString(call.Fun), k)
				callPoints["before "+nm], callPoints["after "+nm] = true, true
			}
		}
		for _, pg := range ct.PointGhosts {
			if (strings.HasPrefix(pg.Point, "before call ") || strings.HasPrefix(pg.Point, "after call ")) && !callPoints[pg.Point] {
				c.abort("%s %s @ %s: the function has no such call", pg.Kind, pg.Name, pg.Point)
			}
		}
		for _, pc := range ct.Points {
			if (strings.HasPrefix(pc.Point, "before call ") || strings.HasPrefix(pc.Point, "after call ")) && !callPoints[pc.Point] {
				// a missing assert only means that one obligation is not generated (reported as such against the
				// baseline); a missing assume or ghost binding changes what everything after it means
				if pc.C.Optional || pc.C.Kind == "assert" {
					continue
				}
				c.abort("%s @ %s: the function has no such call", pc.C.Kind, pc.Point)
			}
		}
		// ghosts bound at program points: unconstrained until their point is passed; counters start at 0
		for _, pg := range ct.PointGhosts {
			so, err := c.parseSort(pg.Sort)
			if err != nil {
				c.abort("%s %s: %v", pg.Kind, pg.Name, err)
				break
			}
			if pg.Kind == "count" {
				st.ghost[pg.Name] = Val{T: "0", S: "Int"}
			} else {
				c.ensureSort(so)
				st.ghost[pg.Name] = Val{T: c.fresh("pg_"+pg.Name, so), S: so}
			}
		}
		for i, r := range ct.Requires {
			t, err := env.trBool(r.Expr)
			if err != nil {
				c.abort("requires %d: %v", i+1, err)
				break
			}
			st.assume(t)
		}
	}
	entry := st.clone()
	st.old = entry
	entry.old = nil

	finish := func(s *State, vals []Val) {
		if len(vals) == 0 && len(resObjs) > 0 {
			for _, o := range resObjs {
				vals = append(vals, c.readVar(s, o))
			}
		} else if len(resObjs) > 0 {
			for i, o := range resObjs {
				if i < len(vals) {
					c.writeVar(s, o, c.convertTo(s, vals[i], o.Type()))
				}
			}
		}
		for i := range vals {
			if i < len(resTypes) {
				vals[i] = c.convertTo(s, vals[i], resTypes[i])
			}
		}
		c.runDefers(s, func(s2 *State) {
			if len(resObjs) > 0 {
				// deferred closures may change named results
				for i, o := range resObjs {
					if i < len(vals) {
						vals[i] = c.readVar(s2, o)
					}
				}
			}
			c.checkPost(s2, ct, vals, exitPos)
			c.paths++
			if c.paths > maxPaths {
				c.abort("more than %d paths", maxPaths)
			}
		})
	}
	if c.aborted == "" {
		c.execBlock(st, body.List, konts{next: func(s *State) { finish(s, nil) }, ret: finish})
	}
	res.Obls = c.obls
	res.Aborted = c.aborted
	res.Paths = c.paths
	for n := range c.notes {
		res.Notes = append(res.Notes, n)
	}
	sort.Strings(res.Notes)
	// attach declarations
	decls := append([]string(nil), c.decls...)
	decls = append(decls, c.litAxioms()...)
	axs, err := c.axiomAsserts()
	if err != nil {
		res.Aborted = err.Error()
	}
	decls = append(c.decls, c.litAxioms()...)
	decls = append(decls, axs...)
	for _, o := range res.Obls {
		o.SMTFile = buildSMT(decls, o)
	}
	res.AnteCov = c.anteCov
	for _, o := range res.AnteCov {
		o.SMTFile = buildSMT(decls, o)
	}
	return res
}

// axiomAsserts translates the global axioms (only those whose symbols are all declared are useful,
// but including all keeps the trusted base uniform).
func (c *Ctx) axiomAsserts() ([]string, error) {
	var out []string
	st := newState()
	env := &SpecEnv{c: c, st: st, bound: map[string]Val{}}
	for _, ax := range c.eng.cs.Axioms {
		if !c.axiomRelevant(ax) {
			continue
		}
		t, err := env.trBool(ax.Expr)
		if err != nil {
			return nil, fmt.Errorf("axiom %s: %v", ax.Name, err)
		}
		out = append(out, "(assert "+t+") ; axiom "+ax.Name)
	}
	return out, nil
}

// axiomRelevant: an axiom is included when every spec function / ghost it mentions has been declared
// by the obligations of this unit (keeps queries small).
func (c *Ctx) axiomRelevant(ax *Axiom) bool {
	ok := true
	var walk func(e *SExpr)
	walk = func(e *SExpr) {
		if e.Op == "call" && e.Args[0].Op == "ident" {
			n := e.Args[0].S
			if sf, isSF := c.eng.cs.SpecFuncs[n]; isSF && sf.Body == nil {
				if !c.seen["fun:sf!"+n] && !c.seen["const:sf!"+n] {
					ok = false
				}
			}
		}
		for _, a := range e.Args {
			walk(a)
		}
	}
	walk(ax.Expr)
	return ok
}

func (c *Ctx) checkPost(st *State, ct *FuncContract, vals []Val, pos token.Pos) {
	// lock balance: nothing locked by this unit may still be held when it returns
	for _, k := range sortedKeys(st.locks) {
		if st.locks[k] > 0 && !(ct != nil && ct.Flags["holds-locks"]) {
			c.addObl(st, "lock", "lock@"+k, "false", "the unit returns at "+c.position(pos)+" with "+k+" still locked (locked by this unit, not unlocked on this path)")
		}
	}
	if ct == nil {
		return
	}
	bound := map[string]Val{}
	bindResults(bound, nil, vals)
	env := &SpecEnv{c: c, st: st, old: st.old, bound: bound, pkg: c.pkg.Types, pos: pos}
	for i, en := range ct.Ensures {
		t, err := env.trBool(en.Expr)
		if err != nil {
			c.abort("ensures %d: %v", i+1, err)
			return
		}
		if en.Expr.Op == "bin" && en.Expr.S == "==>" && len(en.Expr.Args) == 2 {
			// vacuity guard: the antecedent must be reachable on some exit path, otherwise the clause says nothing
			if at, aerr := env.trBool(en.Expr.Args[0]); aerr == nil {
				c.anteCov = append(c.anteCov, &Obligation{Name: c.funcKey + fmt.Sprintf(".post.%d.cover", i+1), Kind: "cover",
					Func: c.funcKey + fmt.Sprintf(" [antecedent of post.%d `%s`]", i+1, en.Expr.Args[0].String()),
					PC:   append([]string(nil), st.pc...), Goal: not(at), Desc: "antecedent reachable (vacuity guard)", Props: en.Props})
			}
		}
		nb := len(c.obls)
		c.addObl(st, "post", fmt.Sprintf("post.%d", i+1), t, fmt.Sprintf("postcondition `%s`", en.Src))
		if len(en.Props) > 0 && len(c.obls) > nb {
			c.obls[len(c.obls)-1].Props = en.Props
		}
	}
	if ct.HasMod {
		if ct.Flags["assume-frame"] {
			c.note("flag assume-frame: the modifies clause of this unit is assumed, not checked")
		} else {
			c.checkFrame(st, ct, env)
		}
	}
}

// checkFrame: every heap key whose current version differs from the entry version must be
// covered by the modifies clause (whole key, or the listed locations only).
func (c *Ctx) checkFrame(st *State, ct *FuncContract, env *SpecEnv) {
	old := st.old
	for _, item := range ct.Modifies {
		if strings.TrimSpace(item) == "*" {
			return
		}
	}
	if st.epoch != old.epoch {
		c.addObl(st, "frame", "frame.all", "false", "a call without contract may have modified everything; modifies clause cannot be checked")
		return
	}
	allowed := map[string][]string{} // key -> locations ("" = whole key)
	oenv := *env
	oenv.st = old
	oenv.old = nil
	for _, item := range ct.Modifies {
		keys, loc, err := c.resolveMod(&oenv, item, nil)
		if err != nil {
			c.abort("modifies %s: %v", item, err)
			return
		}
		if keys == nil {
			return // modifies *
		}
		for _, k := range keys {
			allowed[k] = append(allowed[k], loc)
		}
	}
	var keys []string
	for k := range st.heap {
		if strings.HasPrefix(k, "\x00ep:") {
			// havoc'd before its sort was known: modified as a whole
			kk := strings.TrimPrefix(k, "\x00ep:")
			if locs, ok := allowed[kk]; !(ok && contains(locs, "")) {
				c.addObl(st, "frame", "frame."+mangle(kk), "false", "heap "+kk+" may have been modified as a whole, outside the modifies clause")
			}
			continue
		}
		keys = append(keys, k)
	}
	sort.Strings(keys)
	for _, k := range keys {
		cur := st.heap[k]
		as := heapSorts[k]
		was := c.heapRead(old, k, as)
		if cur == was {
			continue
		}
		if strings.HasPrefix(k, "C:") || strings.HasPrefix(k, "MD:") || strings.HasPrefix(k, "MV:") || strings.HasPrefix(k, "MC:") {
			// cells of locals and map contents: only locations that existed at entry matter
			locs, ok := allowed[k]
			if ok && contains(locs, "") {
				continue
			}
			exp := was
			for _, l := range locs {
				exp = store(exp, l, sel(cur, l))
			}
			c.nfr++
			q := fmt.Sprintf("r!q%d", c.nfr)
			goal := fmt.Sprintf("(forall ((%s Int)) (=> (and (> %s 0) (< %s alloc!0)) (= (select %s %s) (select %s %s))))", q, q, q, cur, q, exp, q)
			c.addObl(st, "frame", "frame."+mangle(k), goal, "heap "+k+" unchanged outside the modifies clause (pre-existing locations)")
			continue
		}
		locs, ok := allowed[k]
		if ok && contains(locs, "") {
			continue
		}
		exp := was
		for _, l := range locs {
			exp = store(exp, l, sel(cur, l))
		}
		if strings.HasPrefix(k, "F:") {
			if fn := k[strings.LastIndex(k, ".")+1:]; !specWords[fn] {
				// no contract, spec function or axiom anywhere names this field: nothing that is proved can depend
				// on it, so a write to it (a new counter, a cache of a computed value) is not a frame violation
				c.note("field " + k + " is written outside the modifies clause but no specification mentions it: ignored by the frame check")
				continue
			}
			c.nfr++
			q := fmt.Sprintf("r!q%d", c.nfr)
			goal := fmt.Sprintf("(forall ((%s Int)) (=> (and (> %s 0) (< %s alloc!0)) (= (select %s %s) (select %s %s))))", q, q, q, cur, q, exp, q)
			c.addObl(st, "frame", "frame."+mangle(k), goal, "field "+k+" unchanged outside the modifies clause (objects existing at entry)")
			continue
		}
		c.addObl(st, "frame", "frame."+mangle(k), eq(cur, exp), "ghost/heap "+k+" unchanged outside the modifies clause")
	}
}

func contains(xs []string, s string) bool {
	for _, x := range xs {
		if x == s {
			return true
		}
	}
	return false
}

func buildSMT(decls []string, o *Obligation) string {
	var b strings.Builder
	b.WriteString("; obligation " + o.Name + "\n; " + strings.ReplaceAll(o.Desc, "\n", " ") + "\n")
	b.WriteString("(set-option :produce-models true)\n(set-logic ALL)\n")
	for _, d := range decls {
		b.WriteString(d)
		b.WriteString("\n")
	}
	for _, p := range o.PC {
		b.WriteString("(assert " + p + ")\n")
	}
	b.WriteString("(assert (not " + o.Goal + "))\n(check-sat)\n")
	return b.String()
}
