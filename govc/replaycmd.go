package main

import (
	"encoding/json"
	"fmt"
	"os"
	"path/filepath"
)

// govc replay <Cnn> <replay.json> : re-run the stored counterexample test against /repo's working tree.
func cmdReplay(args []string) int {
	if len(args) != 2 {
		usage()
	}
	var rf ReplayFile
	if !loadJSON(args[1], &rf) {
		fmt.Println("ERROR cannot read replay file", args[1])
		return 2
	}
	fmt.Printf("obligation: %s\n%s\n", rf.Obligation, rf.What)
	if rf.Test == "" {
		fmt.Println("no generated test in this replay file (the solver gave no model or no template exists); solver output:")
		fmt.Println(rf.SolverOut)
		fmt.Printf("VIOLATION property=%s replay=%s no-failing-input-found\n", rf.Property, args[1])
		return 1
	}
	d, _ := os.MkdirTemp("", "govc-tmpl-")
	defer os.RemoveAll(d)
	t := filepath.Join(d, "t.go.tmpl")
	os.WriteFile(t, []byte(rf.Test), 0o644)
	ok, _, out, note := runReplayTemplate("/repo", t, &Obligation{}, map[string]string{})
	fmt.Println(out)
	fmt.Println(note)
	if ok {
		fmt.Printf("VIOLATION property=%s replay=%s\n", rf.Property, args[1])
		return 1
	}
	return 0
}

// govc tmpl <template> [name=value ...] : run a replay template with default (or given) values.
func cmdTmpl(args []string) int {
	if len(args) < 1 {
		usage()
	}
	model := map[string]string{}
	for _, kv := range args[1:] {
		for i := 0; i < len(kv); i++ {
			if kv[i] == '=' {
				model[kv[:i]] = kv[i+1:]
			}
		}
	}
	repo := "/repo"
	if r := os.Getenv("VERIF_REPO"); r != "" {
		repo = r
	}
	ok, _, out, note := runReplayTemplate(repo, args[0], &Obligation{}, model)
	fmt.Println(out)
	fmt.Println(note)
	b, _ := json.Marshal(map[string]interface{}{"fails_on_real_code": ok})
	fmt.Println(string(b))
	if ok {
		return 1
	}
	return 0
}
