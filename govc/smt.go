package main

import (
	"bytes"
	"context"
	"crypto/sha256"
	"fmt"
	"os"
	"os/exec"
	"path/filepath"
	"strings"
	"sync"
	"time"
)

type solverSpec struct {
	name string
	argv func(file string, timeout time.Duration) []string
}

var solvers = []solverSpec{
	{"z3-new-5.1.0", func(f string, t time.Duration) []string {
		return []string{"z3-new", fmt.Sprintf("-T:%d", int(t.Seconds())+1), fmt.Sprintf("-t:%d", t.Milliseconds()), f}
	}},
	{"cvc5-1.0", func(f string, t time.Duration) []string {
		return []string{"cvc5", "--lang=smt2", fmt.Sprintf("--tlimit=%d", t.Milliseconds()), f}
	}},
	{"z3-4.8.12", func(f string, t time.Duration) []string {
		return []string{"/usr/bin/z3", fmt.Sprintf("-T:%d", int(t.Seconds())+1), fmt.Sprintf("-t:%d", t.Milliseconds()), f}
	}},
}

type solveResult struct {
	status  string
	solver  string
	seconds float64
	output  string
	model   string
}

func runSolver(sp solverSpec, file string, timeout time.Duration) (string, string, float64) {
	ctx, cancel := context.WithTimeout(context.Background(), timeout+3*time.Second)
	defer cancel()
	argv := sp.argv(file, timeout)
	t0 := time.Now()
	cmd := exec.CommandContext(ctx, argv[0], argv[1:]...)
	var out bytes.Buffer
	cmd.Stdout = &out
	cmd.Stderr = &out
	_ = cmd.Run()
	secs := time.Since(t0).Seconds()
	txt := out.String()
	first := strings.TrimSpace(strings.SplitN(txt, "\n", 2)[0])
	switch first {
	case "unsat", "sat", "unknown":
		return first, txt, secs
	case "timeout":
		return "timeout", txt, secs
	}
	if ctx.Err() != nil || strings.Contains(txt, "timeout") || strings.Contains(txt, "interrupted") {
		return "timeout", txt, secs
	}
	return "error", txt, secs
}

var (
	smtCacheMu sync.Mutex
	smtCache   = map[[32]byte]solveResult{}
)

// solve discharges one obligation. quick: first decisive answer wins; thorough: every solver
// runs and a `sat` from any of them overrides.
func solve(dir string, idx int, o *Obligation, timeout time.Duration, thorough bool) {
	h := sha256.Sum256([]byte(o.SMTFile[strings.Index(o.SMTFile, "(set-option"):]))
	smtCacheMu.Lock()
	if r, ok := smtCache[h]; ok {
		smtCacheMu.Unlock()
		o.Status, o.Solver, o.Seconds, o.Output, o.Model = r.status, r.solver+" (cached)", 0, r.output, r.model
		return
	}
	smtCacheMu.Unlock()
	file := filepath.Join(dir, fmt.Sprintf("o%05d.smt2", idx))
	if err := os.WriteFile(file, []byte(o.SMTFile), 0o644); err != nil {
		o.Status, o.Output = "error", err.Error()
		return
	}
	res := solveResult{status: "unknown"}
	var outs []string
	total := 0.0
	for _, sp := range solvers {
		st, out, secs := runSolver(sp, file, timeout)
		total += secs
		outs = append(outs, fmt.Sprintf("[%s] %s (%.2fs)", sp.name, st, secs))
		if st == "error" {
			outs = append(outs, firstLines(out, 6))
		}
		if st == "sat" {
			res.status, res.solver = "sat", sp.name
			// fetch a model
			mfile := file + ".model.smt2"
			os.WriteFile(mfile, []byte(o.SMTFile+"(get-model)\n"), 0o644)
			_, mout, _ := runSolver(sp, mfile, timeout)
			res.model = mout
			os.Remove(mfile)
			break
		}
		if st == "unsat" {
			if res.status != "unsat" {
				res.status, res.solver = "unsat", sp.name
			}
			if !thorough {
				break
			}
			continue
		}
		if res.status != "unsat" && (st == "timeout" || res.status == "unknown") {
			if st == "timeout" && res.status == "unknown" {
				res.status = "timeout"
			}
		}
	}
	res.seconds = total
	res.output = strings.Join(outs, "\n")
	o.Status, o.Solver, o.Seconds, o.Output, o.Model = res.status, res.solver, res.seconds, res.output, res.model
	if res.status == "unsat" {
		os.Remove(file)
	}
	smtCacheMu.Lock()
	smtCache[h] = res
	smtCacheMu.Unlock()
}

func firstLines(s string, n int) string {
	ls := strings.Split(s, "\n")
	if len(ls) > n {
		ls = ls[:n]
	}
	return strings.Join(ls, "\n")
}

func solveAll(dir string, obls []*Obligation, timeout time.Duration, thorough bool, workers int) {
	var wg sync.WaitGroup
	ch := make(chan int)
	for w := 0; w < workers; w++ {
		wg.Add(1)
		go func() {
			defer wg.Done()
			for i := range ch {
				solve(dir, i, obls[i], timeout, thorough)
			}
		}()
	}
	for i := range obls {
		ch <- i
	}
	close(ch)
	wg.Wait()
}

// forgetCached drops the cached verdicts of the given obligations so that they are solved afresh.
func forgetCached(obls []*Obligation) {
	smtCacheMu.Lock()
	defer smtCacheMu.Unlock()
	for _, o := range obls {
		if i := strings.Index(o.SMTFile, "(set-option"); i >= 0 {
			delete(smtCache, sha256.Sum256([]byte(o.SMTFile[i:])))
		}
	}
}
