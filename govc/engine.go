package main

import (
	"fmt"
	"go/ast"
	"go/token"
	"go/types"
	"os"
	"sort"
	"strings"

	"golang.org/x/tools/go/packages"
)

const repoMod = "berty.tech/go-orbit-db"

type FuncInfo struct {
	Decl *ast.FuncDecl
	Pkg  *packages.Package
	Obj  *types.Func
}

type Engine struct {
	fset      *token.FileSet
	roots     []*packages.Package
	pkgs      map[string]*packages.Package
	funcs     map[string]*FuncInfo // types.Func FullName -> info
	cs        *Contracts
	typeTags  map[string]int
	tagTypes  []types.Type
	repoRoot  string
	verbose   bool
	notesSeen map[string]bool
}

func loadEngine(repoRoot, modfile string, patterns []string, cs *Contracts) (*Engine, error) {
	cfg := &packages.Config{
		Mode: packages.NeedName | packages.NeedFiles | packages.NeedSyntax | packages.NeedTypes |
			packages.NeedTypesInfo | packages.NeedImports | packages.NeedDeps,
		Dir:        repoRoot,
		BuildFlags: []string{"-tags=verif", "-modfile=" + modfile},
		Env:        append(os.Environ(), "GOFLAGS=-mod=mod", "GOPROXY=off", "GOSUMDB=off", "GOTOOLCHAIN=local"),
	}
	pkgs, err := packages.Load(cfg, patterns...)
	if err != nil {
		return nil, err
	}
	e := &Engine{roots: pkgs, pkgs: map[string]*packages.Package{}, funcs: map[string]*FuncInfo{}, cs: cs,
		typeTags: map[string]int{}, repoRoot: repoRoot, notesSeen: map[string]bool{}}
	var loadErrs []string
	packages.Visit(pkgs, nil, func(p *packages.Package) {
		e.pkgs[p.PkgPath] = p
		if e.fset == nil {
			e.fset = p.Fset
		}
		if strings.HasPrefix(p.PkgPath, repoMod) {
			for _, er := range p.Errors {
				loadErrs = append(loadErrs, er.Error())
			}
		}
	})
	if len(loadErrs) > 0 {
		return nil, fmt.Errorf("load errors: %s", strings.Join(loadErrs, "; "))
	}
	// index function declarations of the repo and of berty go-ipfs-log (for inlining getters)
	for path, p := range e.pkgs {
		if !(strings.HasPrefix(path, repoMod) || strings.HasPrefix(path, "berty.tech/go-ipfs-log")) {
			continue
		}
		for _, f := range p.Syntax {
			for _, d := range f.Decls {
				fd, ok := d.(*ast.FuncDecl)
				if !ok || fd.Body == nil {
					continue
				}
				obj, _ := p.TypesInfo.Defs[fd.Name].(*types.Func)
				if obj == nil {
					continue
				}
				e.funcs[obj.FullName()] = &FuncInfo{Decl: fd, Pkg: p, Obj: obj}
			}
		}
	}
	return e, nil
}

// shortKey gives the contract key of a function within its package:
// "(*T).M", "(T).M" or "F".
func shortKey(f *types.Func) string {
	sig := f.Type().(*types.Signature)
	if r := sig.Recv(); r != nil {
		t := r.Type()
		star := ""
		if p, ok := t.(*types.Pointer); ok {
			star = "*"
			t = p.Elem()
		}
		name := "?"
		if n, ok := t.(*types.Named); ok {
			name = n.Obj().Name()
		}
		return "(" + star + name + ")." + f.Name()
	}
	return f.Name()
}

func (e *Engine) contractFor(f *types.Func) *FuncContract {
	if f.Pkg() == nil {
		return nil
	}
	if c, ok := e.cs.Funcs[f.Pkg().Path()+"::"+shortKey(f)]; ok {
		return c
	}
	return nil
}

func (e *Engine) externFor(f *types.Func) *FuncContract {
	if c, ok := e.cs.Externs[f.FullName()]; ok {
		return c
	}
	return nil
}

func (e *Engine) isNoEffect(f *types.Func) bool {
	if e.cs.NoEffect[f.FullName()] {
		return true
	}
	if f.Pkg() != nil && e.cs.NoEffPkg[f.Pkg().Path()] {
		return true
	}
	return false
}

func (e *Engine) isPure(f *types.Func) bool { return e.cs.Pure[f.FullName()] }

// typeTag returns the positive dynamic-type tag of a concrete type.
func (e *Engine) typeTag(t types.Type) int {
	k := types.TypeString(t, nil)
	if n, ok := e.typeTags[k]; ok {
		return n
	}
	n := len(e.typeTags) + 1
	e.typeTags[k] = n
	e.tagTypes = append(e.tagTypes, t)
	return n
}

// findUnit locates a function (or a function literal "$k" inside it) by package path and key.
type FuncUnit struct {
	Pkg      *packages.Package
	Decl     *ast.FuncDecl
	Lit      *ast.FuncLit // non-nil for Outer$k units
	Obj      *types.Func
	Key      string
	Contract *FuncContract
}

func (e *Engine) findUnit(pkgPath, key string) (*FuncUnit, error) {
	p := e.pkgs[pkgPath]
	if p == nil {
		return nil, fmt.Errorf("package %s not loaded", pkgPath)
	}
	base := key
	litIdx := []int{}
	if i := strings.Index(key, "$"); i >= 0 {
		base = key[:i]
		for _, s := range strings.Split(key[i+1:], "$") {
			var n int
			fmt.Sscanf(s, "%d", &n)
			litIdx = append(litIdx, n)
		}
	}
	for _, f := range p.Syntax {
		for _, d := range f.Decls {
			fd, ok := d.(*ast.FuncDecl)
			if !ok || fd.Body == nil {
				continue
			}
			obj, _ := p.TypesInfo.Defs[fd.Name].(*types.Func)
			if obj == nil || shortKey(obj) != base {
				continue
			}
			u := &FuncUnit{Pkg: p, Decl: fd, Obj: obj, Key: key, Contract: e.cs.Funcs[pkgPath+"::"+key]}
			var body ast.Node = fd.Body
			for _, n := range litIdx {
				lits := funcLitsOf(body)
				if n < 1 || n > len(lits) {
					return nil, fmt.Errorf("%s: function literal $%d not found", key, n)
				}
				u.Lit = lits[n-1]
				body = u.Lit.Body
			}
			return u, nil
		}
	}
	return nil, fmt.Errorf("function %s not found in %s", key, pkgPath)
}

// funcLitsOf lists function literals directly inside body (not nested in other literals), in source order.
func funcLitsOf(body ast.Node) []*ast.FuncLit {
	var out []*ast.FuncLit
	ast.Inspect(body, func(n ast.Node) bool {
		if fl, ok := n.(*ast.FuncLit); ok {
			if ast.Node(fl) == body {
				return true
			}
			out = append(out, fl)
			return false
		}
		return true
	})
	return out
}

func sortedKeys[V any](m map[string]V) []string {
	var ks []string
	for k := range m {
		ks = append(ks, k)
	}
	sort.Strings(ks)
	return ks
}

// lookupVSort finds the Go struct type behind a value sort name "V_<pkgname>_<Type>".
func (e *Engine) lookupVSort(s string) types.Type {
	rest := strings.TrimPrefix(s, "V_")
	for _, p := range e.pkgs {
		if p.Types == nil {
			continue
		}
		pre := p.Types.Name() + "_"
		if !strings.HasPrefix(rest, pre) {
			continue
		}
		if obj := p.Types.Scope().Lookup(strings.TrimPrefix(rest, pre)); obj != nil {
			if tn, ok := obj.(*types.TypeName); ok {
				if _, isStruct := tn.Type().Underlying().(*types.Struct); isStruct {
					return tn.Type()
				}
			}
		}
	}
	return nil
}

// lookupNamed finds a named type by "pkgname.Type".
func (e *Engine) lookupNamed(name string) types.Type {
	if strings.HasPrefix(name, "[]") {
		if et := e.lookupNamed(name[2:]); et != nil {
			return types.NewSlice(et)
		}
		return nil
	}
	if strings.HasPrefix(name, "*") {
		if et := e.lookupNamed(name[1:]); et != nil {
			return types.NewPointer(et)
		}
		return nil
	}
	if !strings.Contains(name, ".") {
		if o := types.Universe.Lookup(name); o != nil {
			if tn, ok := o.(*types.TypeName); ok {
				return tn.Type()
			}
		}
	}
	i := strings.LastIndex(name, ".")
	if i < 0 {
		return nil
	}
	pn, tn := name[:i], name[i+1:]
	for _, p := range e.pkgs {
		if p.Types == nil || (p.Types.Name() != pn && p.PkgPath != pn) {
			continue
		}
		if obj, ok := p.Types.Scope().Lookup(tn).(*types.TypeName); ok {
			return obj.Type()
		}
	}
	return nil
}
