package main

import (
	"fmt"
	"go/ast"
	"go/types"
	"strings"
)

type deferred struct {
	call *ast.CallExpr
}

type State struct {
	vars   map[types.Object]Val
	cells  map[types.Object]string // boxed locals: Ref term
	heap   map[string]string       // heap key -> current array term
	epoch  string                  // tag of the last havoc-everything event ("0" at entry)
	pc     []string
	ghost  map[string]Val
	defers []deferred
	old    *State
	depth  int            // inline depth
	taint  []string       // callees without contract whose effects were havoc'd on this path
	locks  map[string]int // mutexes locked by this unit and not yet unlocked on this path (key: receiver text)
}

func newState() *State {
	return &State{vars: map[types.Object]Val{}, cells: map[types.Object]string{}, heap: map[string]string{}, epoch: "0", ghost: map[string]Val{}}
}

func (s *State) clone() *State {
	n := &State{vars: make(map[types.Object]Val, len(s.vars)), cells: make(map[types.Object]string, len(s.cells)),
		heap: make(map[string]string, len(s.heap)), epoch: s.epoch, ghost: make(map[string]Val, len(s.ghost)), old: s.old, depth: s.depth}
	for k, v := range s.vars {
		n.vars[k] = v
	}
	for k, v := range s.cells {
		n.cells[k] = v
	}
	for k, v := range s.heap {
		n.heap[k] = v
	}
	for k, v := range s.ghost {
		n.ghost[k] = v
	}
	n.pc = append([]string(nil), s.pc...)
	n.defers = append([]deferred(nil), s.defers...)
	n.taint = append([]string(nil), s.taint...)
	if len(s.locks) > 0 {
		n.locks = make(map[string]int, len(s.locks))
		for k, v := range s.locks {
			n.locks[k] = v
		}
	}
	return n
}

func (s *State) assume(t string) {
	if t == "true" || t == "" {
		return
	}
	s.pc = append(s.pc, t)
}

// ---- heap -----------------------------------------------------------------

var heapSorts = map[string]Sort{} // heap key -> array sort

func (c *Ctx) heapGet(st *State, key string, arrSort Sort) string {
	if t, ok := st.heap[key]; ok {
		return t
	}
	if _, ok := heapSorts[key]; !ok {
		heapSorts[key] = arrSort
	}
	name := "H!" + mangle(key) + "!e" + st.epoch
	c.ensureSort(arrSort)
	c.decl("const:"+name, fmt.Sprintf("(declare-const %s %s)", name, arrSort))
	st.heap[key] = name
	return name
}

func (c *Ctx) heapSet(st *State, key string, arrSort Sort, term string) {
	heapSorts[key] = arrSort
	n := c.fresh("H!"+mangle(key), arrSort)
	st.assume(fmt.Sprintf("(= %s %s)", n, term))
	st.heap[key] = n
}

func (c *Ctx) heapHavocKey(st *State, key string) {
	s, ok := heapSorts[key]
	if !ok {
		delete(st.heap, key)
		// unknown sort yet: a fresh epoch-specific default will be made on first read
		st.heap[key] = ""
		delete(st.heap, key)
		// force a distinct default name by recording a per-key epoch override
		st.heap["\x00ep:"+key] = fmt.Sprintf("k%d", c.bump())
		return
	}
	st.heap[key] = c.fresh("H!"+mangle(key), s)
}

func (c *Ctx) bump() int { c.nfr++; return c.nfr }

func (c *Ctx) heapHavocAll(st *State) {
	for k := range st.heap {
		delete(st.heap, k)
	}
	st.epoch = fmt.Sprintf("%d", c.bump())
	c.note("heap havoc (call without contract)")
}

// heapRead wraps heapGet honouring per-key epoch overrides.
func (c *Ctx) heapRead(st *State, key string, arrSort Sort) string {
	if t, ok := st.heap[key]; ok && t != "" {
		return t
	}
	if ov, ok := st.heap["\x00ep:"+key]; ok {
		heapSorts[key] = arrSort
		name := "H!" + mangle(key) + "!" + ov
		c.ensureSort(arrSort)
		c.decl("const:"+name, fmt.Sprintf("(declare-const %s %s)", name, arrSort))
		st.heap[key] = name
		delete(st.heap, "\x00ep:"+key)
		return name
	}
	return c.heapGet(st, key, arrSort)
}

func sel(arr, idx string) string      { return "(select " + arr + " " + idx + ")" }
func store(arr, idx, v string) string { return "(store " + arr + " " + idx + " " + v + ")" }
func and(xs ...string) string {
	var ys []string
	for _, x := range xs {
		if x == "true" || x == "" {
			continue
		}
		if x == "false" {
			return "false"
		}
		ys = append(ys, x)
	}
	switch len(ys) {
	case 0:
		return "true"
	case 1:
		return ys[0]
	}
	return "(and " + strings.Join(ys, " ") + ")"
}
func or(xs ...string) string {
	var ys []string
	for _, x := range xs {
		if x == "false" || x == "" {
			continue
		}
		if x == "true" {
			return "true"
		}
		ys = append(ys, x)
	}
	switch len(ys) {
	case 0:
		return "false"
	case 1:
		return ys[0]
	}
	return "(or " + strings.Join(ys, " ") + ")"
}
func not(x string) string {
	switch x {
	case "true":
		return "false"
	case "false":
		return "true"
	}
	if strings.HasPrefix(x, "(not ") && strings.HasSuffix(x, ")") && balanced(x[5:len(x)-1]) {
		return x[5 : len(x)-1]
	}
	return "(not " + x + ")"
}
func balanced(s string) bool {
	d := 0
	for i := 0; i < len(s); i++ {
		switch s[i] {
		case '(':
			d++
		case ')':
			d--
			if d < 0 {
				return false
			}
		}
	}
	return d == 0
}
func implies(a, b string) string {
	if a == "true" {
		return b
	}
	if b == "true" || a == "false" {
		return "true"
	}
	return "(=> " + a + " " + b + ")"
}
func eq(a, b string) string {
	if a == b {
		return "true"
	}
	return "(= " + a + " " + b + ")"
}

// field heap key of a struct field.
func fieldKey(owner types.Type, path string) string {
	return "F:" + typeName(owner) + "." + path
}

func typeName(t types.Type) string {
	if p, ok := t.(*types.Pointer); ok {
		t = p.Elem()
	}
	t = types.Unalias(t)
	if n, ok := t.(*types.Named); ok {
		if n.Obj().Pkg() != nil {
			return n.Obj().Pkg().Name() + "." + n.Obj().Name()
		}
		return n.Obj().Name()
	}
	return mangle(t.String())
}
