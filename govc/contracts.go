package main

// Reader for contract files: comment-only Go files (//go:build verif) in /repo
// and the shared prelude under /verif/spec.  Only lines starting with "//@"
// are looked at.

import (
	"bufio"
	"fmt"
	"os"
	"path/filepath"
	"regexp"
	"sort"
	"strings"
)

type Clause struct {
	Props    []string // when set (`ensures @C03 expr`): the obligation counts for these properties only
	Optional bool     // dropped (with a note) when it mentions an identifier that no longer exists
	Kind     string
	Expr     *SExpr
	Src      string
	File     string
	Line     int
}

type LoopSpec struct {
	Invariants []*Clause
	Modifies   []string
	HasMod     bool
	Ghosts     []GhostLet // evaluated when the loop is first reached (before the havoc)
	IterGhosts []GhostLet // `loop k iter name := e`: evaluated at the head of an arbitrary iteration (after the invariants are assumed)
	NoExit     bool       // the loop may only be left by exhaustion of its range / failing condition
}

type GhostLet struct {
	Name string
	Expr *SExpr
}

type PointClause struct {
	Point string // e.g. "call Emit#1"
	C     *Clause
}

// PointGhost: a ghost variable bound (let) or incremented (count) at a program point.
type PointGhost struct {
	Point string
	Kind  string // "let" | "count"
	Name  string
	Sort  string
	Expr  *SExpr // let
	Cond  *SExpr // count
}

type FuncContract struct {
	Key         string // "(*BaseStore).recalculateReplicationMax", "SaveSnapshot", "(*BaseStore).InitBaseStore$1"
	PkgPath     string // package the contract file belongs to ("" for prelude)
	File        string
	Line        int
	Requires    []*Clause
	Ensures     []*Clause
	Modifies    []string
	HasMod      bool
	Loops       map[string]*LoopSpec
	Ghosts      []GhostLet
	Wraps       map[string]bool
	Props       []string
	SafetyProps []string      // `safety Cnn ...`
	Points      []PointClause // assert/assume at program points
	PointGhosts []PointGhost
	Trusted     bool // contract is assumed, body not verified
	Flags       map[string]bool

	// extern only
	Extern    bool
	FullName  string
	RecvName  string
	ParamName []string
	ResName   []string
}

type SpecFunc struct {
	Name   string
	Params []string
	PSorts []string
	Ret    string
	Body   *SExpr
	Src    string
}

type GhostField struct {
	Name    string
	KeySort string
	ValSort string
}

type Axiom struct {
	Name  string
	Expr  *SExpr
	Src   string
	Lemma bool
	Props []string
	File  string
}

type Contracts struct {
	Funcs     map[string]*FuncContract // key: pkgpath + "::" + Key
	Externs   map[string]*FuncContract // key: types.Func FullName
	Pure      map[string]bool
	NoEffect  map[string]bool
	NoEffPkg  map[string]bool
	Inline    map[string]bool
	Devirt    map[string]string // interface (pkgpath.Name) -> concrete named type (pkgpath.Name), pointer receiver
	SpecFuncs map[string]*SpecFunc
	SpecSorts map[string]bool
	Ghosts    map[string]*GhostField
	Axioms    []*Axiom
	Lemmas    []*Axiom
	Files     []string
	Assumed   []string // human-readable list of assumed things (trusted base)
}

func newContracts() *Contracts {
	return &Contracts{
		Funcs: map[string]*FuncContract{}, Externs: map[string]*FuncContract{},
		Pure: map[string]bool{}, NoEffect: map[string]bool{}, NoEffPkg: map[string]bool{}, Inline: map[string]bool{}, Devirt: map[string]string{},
		SpecFuncs: map[string]*SpecFunc{}, SpecSorts: map[string]bool{}, Ghosts: map[string]*GhostField{},
	}
}

var clauseKeywords = map[string]bool{
	"func": true, "extern": true, "pure": true, "noeffect": true, "spec": true, "ghost": true,
	"axiom": true, "lemma": true, "requires": true, "ensures": true, "modifies": true, "loop": true,
	"devirt": true, "wraps": true, "props": true, "safety": true, "let": true, "count": true, "assume": true, "assert": true, "assume?": true, "assert?": true, "trusted": true, "inline": true, "flag": true,
}

type rawLine struct {
	text string
	file string
	line int
}

func readSpecLines(file string) ([]rawLine, error) {
	f, err := os.Open(file)
	if err != nil {
		return nil, err
	}
	defer f.Close()
	var out []rawLine
	sc := bufio.NewScanner(f)
	sc.Buffer(make([]byte, 1<<20), 1<<20)
	n := 0
	for sc.Scan() {
		n++
		l := strings.TrimSpace(sc.Text())
		if !strings.HasPrefix(l, "//@") {
			continue
		}
		l = strings.TrimSpace(l[3:])
		if l == "" {
			continue
		}
		// strip trailing comment " // ..."
		if i := strings.Index(l, " // "); i >= 0 {
			l = strings.TrimSpace(l[:i])
		}
		first := l
		if i := strings.IndexAny(l, " \t"); i >= 0 {
			first = l[:i]
		}
		if !clauseKeywords[first] && len(out) > 0 && out[len(out)-1].file == file {
			out[len(out)-1].text += " " + l
			continue
		}
		out = append(out, rawLine{l, file, n})
	}
	for _, rl := range out {
		for _, w := range specWordRe.FindAllString(rl.text, -1) {
			specWords[w] = true
		}
	}
	return out, sc.Err()
}

// specWords: every identifier that occurs anywhere in a contract or spec file. A struct field whose name is
// not among them cannot be read by any clause, so a write to it cannot affect anything that is proved.
var (
	specWords  = map[string]bool{}
	specWordRe = regexp.MustCompile(`[A-Za-z_][A-Za-z0-9_]*`)
)

func splitFirst(s string) (string, string) {
	s = strings.TrimSpace(s)
	if i := strings.IndexAny(s, " \t"); i >= 0 {
		return s[:i], strings.TrimSpace(s[i+1:])
	}
	return s, ""
}

func splitCommaList(s string) []string {
	var out []string
	depth, inStr, last := 0, false, 0
	flush := func(end int) {
		x := strings.TrimSpace(s[last:end])
		if x != "" {
			out = append(out, x)
		}
	}
	for i := 0; i < len(s); i++ {
		switch {
		case s[i] == '"':
			inStr = !inStr
		case inStr:
		case s[i] == '(' || s[i] == '[' || s[i] == '<':
			depth++
		case s[i] == ')' || s[i] == ']' || s[i] == '>':
			depth--
		case s[i] == ',' && depth == 0:
			flush(i)
			last = i + 1
		}
	}
	flush(len(s))
	return out
}

// parseSig parses "(l).Join(o, size) (res, err)" or "F(a, b) (r)".
func parseSig(sig string) (recv string, params, results []string, err error) {
	s := strings.TrimSpace(sig)
	if strings.HasPrefix(s, "(") {
		i := strings.Index(s, ")")
		recv = strings.TrimSpace(s[1:i])
		s = s[i+1:]
		if !strings.HasPrefix(s, ".") {
			return "", nil, nil, fmt.Errorf("bad extern signature %q", sig)
		}
	}
	i := strings.Index(s, "(")
	if i < 0 {
		return "", nil, nil, fmt.Errorf("bad extern signature %q", sig)
	}
	j := strings.Index(s[i:], ")")
	params = splitCommaList(s[i+1 : i+j])
	rest := strings.TrimSpace(s[i+j+1:])
	if rest != "" {
		rest = strings.TrimPrefix(rest, "(")
		rest = strings.TrimSuffix(rest, ")")
		results = splitCommaList(rest)
	}
	return
}

func (cs *Contracts) loadFile(file, pkgPath string) error {
	lines, err := readSpecLines(file)
	if err != nil {
		return err
	}
	cs.Files = append(cs.Files, file)
	var cur *FuncContract
	mkClause := func(kind, src string, rl rawLine) (*Clause, error) {
		var props []string
		for strings.HasPrefix(strings.TrimSpace(src), "@C") {
			src = strings.TrimSpace(src)
			i := strings.IndexAny(src, " \t")
			if i < 0 {
				break
			}
			props = append(props, src[1:i])
			src = src[i+1:]
		}
		e, err := parseSpecExpr(src)
		if err != nil {
			return nil, fmt.Errorf("%s:%d: %v", rl.file, rl.line, err)
		}
		return &Clause{Kind: kind, Expr: e, Src: strings.TrimSpace(src), File: rl.file, Line: rl.line, Props: props}, nil
	}
	for _, rl := range lines {
		kw, rest := splitFirst(rl.text)
		switch kw {
		case "func":
			cur = &FuncContract{Key: rest, PkgPath: pkgPath, File: rl.file, Line: rl.line, Loops: map[string]*LoopSpec{}, Wraps: map[string]bool{}, Flags: map[string]bool{}}
			k := pkgPath + "::" + rest
			if _, dup := cs.Funcs[k]; dup {
				return fmt.Errorf("%s:%d: duplicate contract for %s", rl.file, rl.line, k)
			}
			cs.Funcs[k] = cur
		case "extern":
			i := strings.Index(rest, " as ")
			if i < 0 {
				return fmt.Errorf("%s:%d: extern needs ' as <signature>'", rl.file, rl.line)
			}
			full := strings.TrimSpace(rest[:i])
			recv, ps, rs, err := parseSig(rest[i+4:])
			if err != nil {
				return fmt.Errorf("%s:%d: %v", rl.file, rl.line, err)
			}
			cur = &FuncContract{Key: full, FullName: full, Extern: true, File: rl.file, Line: rl.line, RecvName: recv, ParamName: ps, ResName: rs,
				Loops: map[string]*LoopSpec{}, Wraps: map[string]bool{}, Flags: map[string]bool{}, PkgPath: pkgPath}
			cs.Externs[full] = cur
		case "pure":
			cs.Pure[rest] = true
			cur = nil
		case "noeffect":
			a, b := splitFirst(rest)
			if a == "pkg" {
				cs.NoEffPkg[b] = true
			} else {
				cs.NoEffect[rest] = true
			}
			cur = nil
		case "inline":
			cs.Inline[rest] = true
			cur = nil
		case "devirt":
			parts := strings.Split(rest, "=>")
			if len(parts) != 2 {
				return fmt.Errorf("%s:%d: devirt needs 'Iface => Concrete'", rl.file, rl.line)
			}
			key := strings.TrimSpace(parts[0])
			if pkgPath != "" && strings.HasPrefix(key, "local ") {
				// `devirt local I => T`: only for units of this package
				key = pkgPath + "|" + strings.TrimSpace(strings.TrimPrefix(key, "local "))
			}
			cs.Devirt[key] = strings.TrimSpace(parts[1])
			cur = nil
		case "spec":
			a, b := splitFirst(rest)
			switch a {
			case "sort":
				cs.SpecSorts[b] = true
			case "func":
				sf, err := parseSpecFuncDecl(b)
				if err != nil {
					return fmt.Errorf("%s:%d: %v", rl.file, rl.line, err)
				}
				cs.SpecFuncs[sf.Name] = sf
			default:
				return fmt.Errorf("%s:%d: unknown spec declaration %q", rl.file, rl.line, a)
			}
			cur = nil
		case "ghost":
			a, b := splitFirst(rest)
			if a == "field" {
				// name(KeySort) ValSort
				i := strings.Index(b, "(")
				j := strings.Index(b, ")")
				if i < 0 || j < i {
					return fmt.Errorf("%s:%d: bad ghost field", rl.file, rl.line)
				}
				g := &GhostField{Name: strings.TrimSpace(b[:i]), KeySort: strings.TrimSpace(b[i+1 : j]), ValSort: strings.TrimSpace(b[j+1:])}
				cs.Ghosts[g.Name] = g
				cur = nil
				continue
			}
			if cur == nil {
				return fmt.Errorf("%s:%d: ghost let outside a func", rl.file, rl.line)
			}
			i := strings.Index(rest, ":=")
			if i < 0 {
				return fmt.Errorf("%s:%d: ghost let needs :=", rl.file, rl.line)
			}
			e, err := parseSpecExpr(rest[i+2:])
			if err != nil {
				return fmt.Errorf("%s:%d: %v", rl.file, rl.line, err)
			}
			cur.Ghosts = append(cur.Ghosts, GhostLet{strings.TrimSpace(rest[:i]), e})
		case "axiom", "lemma":
			i := strings.Index(rest, ":")
			if i < 0 {
				return fmt.Errorf("%s:%d: %s needs 'name: expr'", rl.file, rl.line, kw)
			}
			name := strings.TrimSpace(rest[:i])
			var props []string
			if j := strings.Index(name, " "); j >= 0 { // "name C19 C01"
				props = strings.Fields(name[j+1:])
				name = name[:j]
			}
			e, err := parseSpecExpr(rest[i+1:])
			if err != nil {
				return fmt.Errorf("%s:%d: %v", rl.file, rl.line, err)
			}
			ax := &Axiom{Name: name, Expr: e, Src: strings.TrimSpace(rest[i+1:]), Lemma: kw == "lemma", Props: props, File: rl.file}
			if kw == "axiom" {
				cs.Axioms = append(cs.Axioms, ax)
			} else {
				cs.Lemmas = append(cs.Lemmas, ax)
			}
			cur = nil
		case "requires", "ensures":
			if cur == nil {
				return fmt.Errorf("%s:%d: %s outside a func", rl.file, rl.line, kw)
			}
			c, err := mkClause(kw, rest, rl)
			if err != nil {
				return err
			}
			if kw == "requires" {
				cur.Requires = append(cur.Requires, c)
			} else {
				cur.Ensures = append(cur.Ensures, c)
			}
		case "modifies":
			if cur == nil {
				return fmt.Errorf("%s:%d: modifies outside a func", rl.file, rl.line)
			}
			cur.HasMod = true
			if rest != "nothing" {
				cur.Modifies = append(cur.Modifies, splitCommaList(rest)...)
			}
		case "loop":
			if cur == nil {
				return fmt.Errorf("%s:%d: loop outside a func", rl.file, rl.line)
			}
			id, r2 := splitFirst(rest)
			k2, r3 := splitFirst(r2)
			ls := cur.Loops[id]
			if ls == nil {
				ls = &LoopSpec{}
				cur.Loops[id] = ls
			}
			switch k2 {
			case "invariant", "invariant?":
				c, err := mkClause("invariant", r3, rl)
				if err != nil {
					return err
				}
				c.Optional = k2 == "invariant?"
				ls.Invariants = append(ls.Invariants, c)
			case "modifies":
				ls.HasMod = true
				if r3 != "nothing" {
					ls.Modifies = append(ls.Modifies, splitCommaList(r3)...)
				}
			case "noexit":
				ls.NoExit = true
			case "frame":
				// `loop k frame g(loc), ...`: the loop changes ghost field g at loc only (checked as an invariant)
				for _, item := range splitCommaList(r3) {
					i := strings.Index(item, "(")
					if i < 0 || !strings.HasSuffix(item, ")") {
						return fmt.Errorf("%s:%d: loop frame item %q", rl.file, rl.line, item)
					}
					g, loc := strings.TrimSpace(item[:i]), item[i+1:len(item)-1]
					gn := "$fr_" + id + "_" + g
					ge, _ := parseSpecExpr(g)
					ls.Ghosts = append(ls.Ghosts, GhostLet{gn, ge})
					c, err := mkClause("invariant", fmt.Sprintf("%s == store(%s, %s, %s[%s])", g, gn, loc, g, loc), rl)
					if err != nil {
						return err
					}
					ls.Invariants = append(ls.Invariants, c)
				}
			case "ghost":
				i := strings.Index(r3, ":=")
				if i < 0 {
					return fmt.Errorf("%s:%d: loop ghost needs :=", rl.file, rl.line)
				}
				e, err := parseSpecExpr(r3[i+2:])
				if err != nil {
					return fmt.Errorf("%s:%d: %v", rl.file, rl.line, err)
				}
				ls.Ghosts = append(ls.Ghosts, GhostLet{strings.TrimSpace(r3[:i]), e})
			case "iter":
				i := strings.Index(r3, ":=")
				if i < 0 {
					return fmt.Errorf("%s:%d: loop iter needs :=", rl.file, rl.line)
				}
				e, err := parseSpecExpr(r3[i+2:])
				if err != nil {
					return fmt.Errorf("%s:%d: %v", rl.file, rl.line, err)
				}
				ls.IterGhosts = append(ls.IterGhosts, GhostLet{strings.TrimSpace(r3[:i]), e})
			default:
				return fmt.Errorf("%s:%d: loop clause %q", rl.file, rl.line, k2)
			}
		case "wraps":
			if cur == nil {
				return fmt.Errorf("%s:%d: wraps outside a func", rl.file, rl.line)
			}
			for _, w := range strings.Fields(rest) {
				cur.Wraps[w] = true
			}
		case "flag":
			if cur == nil {
				return fmt.Errorf("%s:%d: flag outside a func", rl.file, rl.line)
			}
			for _, w := range strings.Fields(rest) {
				cur.Flags[w] = true
			}
		case "props":
			if cur == nil {
				return fmt.Errorf("%s:%d: props outside a func", rl.file, rl.line)
			}
			cur.Props = append(cur.Props, strings.Fields(rest)...)
		case "safety":
			// `safety Cnn ...`: the run-time safety obligations of this unit (nil, bounds, make, conversions,
			// type assertions) count for these properties only (default: for every property of the unit)
			if cur == nil {
				return fmt.Errorf("%s:%d: safety outside a func", rl.file, rl.line)
			}
			cur.SafetyProps = append(cur.SafetyProps, strings.Fields(rest)...)
		case "trusted":
			if cur == nil {
				return fmt.Errorf("%s:%d: trusted outside a func", rl.file, rl.line)
			}
			cur.Trusted = true
		case "let", "count":
			// let @ <point>: name Sort := expr        ghost bound at a program point (unconstrained before it)
			// count @ <point> when cond: name          ghost counter: 0 at entry, +1 at the point when cond holds
			if cur == nil {
				return fmt.Errorf("%s:%d: %s outside a func", rl.file, rl.line, kw)
			}
			i := strings.Index(rest, ":")
			if !strings.HasPrefix(rest, "@") || i < 0 {
				return fmt.Errorf("%s:%d: %s needs '@ point: ...'", rl.file, rl.line, kw)
			}
			pt := strings.TrimSpace(rest[1:i])
			body := strings.TrimSpace(rest[i+1:])
			pg := PointGhost{Point: pt, Kind: kw}
			if kw == "count" {
				j := strings.Index(pt, " when ")
				if j < 0 {
					return fmt.Errorf("%s:%d: count needs 'when cond'", rl.file, rl.line)
				}
				ce, err := parseSpecExpr(pt[j+6:])
				if err != nil {
					return fmt.Errorf("%s:%d: %v", rl.file, rl.line, err)
				}
				pg.Point, pg.Cond, pg.Name, pg.Sort = strings.TrimSpace(pt[:j]), ce, body, "Int"
			} else {
				j := strings.Index(body, ":=")
				if j < 0 {
					return fmt.Errorf("%s:%d: let needs 'name Sort := expr'", rl.file, rl.line)
				}
				hd := strings.Fields(body[:j])
				if len(hd) != 2 {
					return fmt.Errorf("%s:%d: let needs 'name Sort := expr'", rl.file, rl.line)
				}
				e, err := parseSpecExpr(body[j+2:])
				if err != nil {
					return fmt.Errorf("%s:%d: %v", rl.file, rl.line, err)
				}
				pg.Name, pg.Sort, pg.Expr = hd[0], hd[1], e
			}
			cur.PointGhosts = append(cur.PointGhosts, pg)
		case "assume", "assert", "assume?", "assert?":
			// assume @ <point> : expr
			if cur == nil {
				return fmt.Errorf("%s:%d: %s outside a func", rl.file, rl.line, kw)
			}
			if !strings.HasPrefix(rest, "@") {
				return fmt.Errorf("%s:%d: %s needs '@ point: expr'", rl.file, rl.line, kw)
			}
			i := strings.Index(rest, ":")
			pt := strings.TrimSpace(rest[1:i])
			c, err := mkClause(strings.TrimSuffix(kw, "?"), rest[i+1:], rl)
			if err != nil {
				return err
			}
			c.Optional = strings.HasSuffix(kw, "?")
			cur.Points = append(cur.Points, PointClause{pt, c})
		}
	}
	return nil
}

func parseSpecFuncDecl(s string) (*SpecFunc, error) {
	// name(a Sort, b Sort) Ret [= expr]
	i := strings.Index(s, "(")
	if i < 0 {
		return nil, fmt.Errorf("bad spec func %q", s)
	}
	sf := &SpecFunc{Name: strings.TrimSpace(s[:i]), Src: s}
	depth := 0
	j := i
	for ; j < len(s); j++ {
		if s[j] == '(' {
			depth++
		} else if s[j] == ')' {
			depth--
			if depth == 0 {
				break
			}
		}
	}
	for _, p := range splitCommaList(s[i+1 : j]) {
		n, so := splitFirst(p)
		sf.Params = append(sf.Params, n)
		sf.PSorts = append(sf.PSorts, strings.ReplaceAll(so, " ", ""))
	}
	rest := strings.TrimSpace(s[j+1:])
	if k := strings.Index(rest, "="); k >= 0 && !strings.HasPrefix(rest[k:], "==") {
		sf.Ret = strings.ReplaceAll(strings.TrimSpace(rest[:k]), " ", "")
		e, err := parseSpecExpr(rest[k+1:])
		if err != nil {
			return nil, err
		}
		sf.Body = e
	} else {
		sf.Ret = strings.ReplaceAll(rest, " ", "")
	}
	return sf, nil
}

// loadAll reads the prelude (/verif/spec/*.vc) and every verif_contracts.go under root.
func loadContracts(specDir, repoRoot string) (*Contracts, error) {
	cs := newContracts()
	pre, _ := filepath.Glob(filepath.Join(specDir, "*.vc"))
	sort.Strings(pre)
	for _, f := range pre {
		if err := cs.loadFile(f, ""); err != nil {
			return nil, err
		}
	}
	var files []string
	filepath.Walk(repoRoot, func(p string, info os.FileInfo, err error) error {
		if err != nil {
			return nil
		}
		if info.IsDir() && (info.Name() == ".git" || info.Name() == "node_modules") {
			return filepath.SkipDir
		}
		if !info.IsDir() && info.Name() == "verif_contracts.go" {
			files = append(files, p)
		}
		return nil
	})
	sort.Strings(files)
	for _, f := range files {
		rel, _ := filepath.Rel(repoRoot, filepath.Dir(f))
		pkg := "berty.tech/go-orbit-db"
		if rel != "." {
			pkg += "/" + filepath.ToSlash(rel)
		}
		if err := cs.loadFile(f, pkg); err != nil {
			return nil, err
		}
	}
	return cs, nil
}
