package main

// Lexer and parser for the contract expression language (Gobra-flavoured,
// deliberately small).  See DESIGN.md §2.3.

import (
	"fmt"
	"strings"
	"unicode"
)

type tokKind int

const (
	tEOF tokKind = iota
	tIdent
	tInt
	tString
	tOp
)

type stok struct {
	k   tokKind
	s   string
	pos int
}

func lexSpec(src string) ([]stok, error) {
	var toks []stok
	i := 0
	ops := []string{"<==>", "==>", "::", ":=", "==", "!=", "<=", ">=", "&&", "||", "..", "(", ")", "[", "]", "{", "}", ",", ".", "+", "-", "*", "/", "%", "<", ">", "!", "?", ":", "|", "@", "#"}
	for i < len(src) {
		c := rune(src[i])
		if unicode.IsSpace(c) {
			i++
			continue
		}
		if unicode.IsLetter(c) || c == '_' || c == '$' {
			j := i + 1
			for j < len(src) && (unicode.IsLetter(rune(src[j])) || unicode.IsDigit(rune(src[j])) || src[j] == '_' || src[j] == '$' || src[j] == '\'') {
				j++
			}
			toks = append(toks, stok{tIdent, src[i:j], i})
			i = j
			continue
		}
		if unicode.IsDigit(c) {
			j := i + 1
			for j < len(src) && unicode.IsDigit(rune(src[j])) {
				j++
			}
			toks = append(toks, stok{tInt, src[i:j], i})
			i = j
			continue
		}
		if c == '"' {
			j := i + 1
			for j < len(src) && src[j] != '"' {
				if src[j] == '\\' {
					j++
				}
				j++
			}
			if j >= len(src) {
				return nil, fmt.Errorf("unterminated string at %d", i)
			}
			toks = append(toks, stok{tString, src[i+1 : j], i})
			i = j + 1
			continue
		}
		matched := false
		for _, op := range ops {
			if strings.HasPrefix(src[i:], op) {
				toks = append(toks, stok{tOp, op, i})
				i += len(op)
				matched = true
				break
			}
		}
		if !matched {
			return nil, fmt.Errorf("unexpected character %q at %d in %q", c, i, src)
		}
	}
	toks = append(toks, stok{tEOF, "", len(src)})
	return toks, nil
}

// SExpr is the spec AST.
type SExpr struct {
	Op   string   // "ident","int","str","bin","un","call","sel","index","forall","exists","old","ite","in","slice"
	S    string   // identifier / operator / literal
	Args []*SExpr // operands
	// quantifier binders
	BVars  []string
	BSorts []string
}

func (e *SExpr) String() string {
	switch e.Op {
	case "ident", "int":
		return e.S
	case "str":
		return fmt.Sprintf("%q", e.S)
	case "bin":
		return "(" + e.Args[0].String() + " " + e.S + " " + e.Args[1].String() + ")"
	case "un":
		return e.S + e.Args[0].String()
	case "call":
		var a []string
		for _, x := range e.Args[1:] {
			a = append(a, x.String())
		}
		return e.Args[0].String() + "(" + strings.Join(a, ", ") + ")"
	case "sel":
		return e.Args[0].String() + "." + e.S
	case "index":
		return e.Args[0].String() + "[" + e.Args[1].String() + "]"
	case "forall", "exists":
		var b []string
		for i := range e.BVars {
			b = append(b, e.BVars[i]+" "+e.BSorts[i])
		}
		return "(" + e.Op + " " + strings.Join(b, ", ") + " :: " + e.Args[0].String() + ")"
	case "ite":
		return "(" + e.Args[0].String() + " ? " + e.Args[1].String() + " : " + e.Args[2].String() + ")"
	}
	return e.Op
}

type specParser struct {
	toks []stok
	p    int
	src  string
}

func parseSpecExpr(src string) (*SExpr, error) {
	toks, err := lexSpec(src)
	if err != nil {
		return nil, err
	}
	p := &specParser{toks: toks, src: src}
	e, err := p.parseExpr(0)
	if err != nil {
		return nil, err
	}
	if p.peek().k != tEOF {
		return nil, fmt.Errorf("trailing input at %d in %q", p.peek().pos, src)
	}
	return e, nil
}

func (p *specParser) peek() stok { return p.toks[p.p] }
func (p *specParser) next() stok { t := p.toks[p.p]; p.p++; return t }
func (p *specParser) isOp(s string) bool {
	t := p.peek()
	return t.k == tOp && t.s == s
}
func (p *specParser) expectOp(s string) error {
	if !p.isOp(s) {
		return fmt.Errorf("expected %q at %d in %q (got %q)", s, p.peek().pos, p.src, p.peek().s)
	}
	p.next()
	return nil
}

// binary precedence (higher binds tighter)
var binPrec = map[string]int{
	"<==>": 1, "==>": 2, "||": 3, "&&": 4,
	"==": 5, "!=": 5, "<": 5, "<=": 5, ">": 5, ">=": 5, "in": 5,
	"+": 6, "-": 6, "*": 7, "/": 7, "%": 7,
}

func (p *specParser) parseExpr(minPrec int) (*SExpr, error) {
	lhs, err := p.parseUnary()
	if err != nil {
		return nil, err
	}
	for {
		t := p.peek()
		var op string
		if t.k == tOp {
			op = t.s
		} else if t.k == tIdent && t.s == "in" {
			op = "in"
		} else {
			break
		}
		if op == "?" && minPrec <= 0 {
			p.next()
			a, err := p.parseExpr(0)
			if err != nil {
				return nil, err
			}
			if err := p.expectOp(":"); err != nil {
				return nil, err
			}
			b, err := p.parseExpr(0)
			if err != nil {
				return nil, err
			}
			lhs = &SExpr{Op: "ite", Args: []*SExpr{lhs, a, b}}
			continue
		}
		prec, ok := binPrec[op]
		if !ok || prec < minPrec {
			break
		}
		p.next()
		nextMin := prec + 1
		if op == "==>" { // right associative
			nextMin = prec
		}
		rhs, err := p.parseExpr(nextMin)
		if err != nil {
			return nil, err
		}
		lhs = &SExpr{Op: "bin", S: op, Args: []*SExpr{lhs, rhs}}
	}
	return lhs, nil
}

func (p *specParser) parseUnary() (*SExpr, error) {
	t := p.peek()
	if t.k == tOp && (t.s == "!" || t.s == "-") {
		p.next()
		x, err := p.parseUnary()
		if err != nil {
			return nil, err
		}
		return &SExpr{Op: "un", S: t.s, Args: []*SExpr{x}}, nil
	}
	if t.k == tIdent && (t.s == "forall" || t.s == "exists") {
		p.next()
		q := &SExpr{Op: t.s}
		for {
			v := p.next()
			if v.k != tIdent {
				return nil, fmt.Errorf("binder name expected at %d in %q", v.pos, p.src)
			}
			s, err := p.parseSortName()
			if err != nil {
				return nil, err
			}
			q.BVars = append(q.BVars, v.s)
			q.BSorts = append(q.BSorts, s)
			if p.isOp(",") {
				p.next()
				continue
			}
			break
		}
		if err := p.expectOp("::"); err != nil {
			return nil, err
		}
		body, err := p.parseExpr(0)
		if err != nil {
			return nil, err
		}
		q.Args = []*SExpr{body}
		return q, nil
	}
	return p.parsePostfix()
}

// parseSortName reads a sort: Ident or Ident<...,...>
func (p *specParser) parseSortName() (string, error) {
	t := p.next()
	if t.k != tIdent {
		return "", fmt.Errorf("sort name expected at %d in %q", t.pos, p.src)
	}
	s := t.s
	if p.isOp("<") {
		p.next()
		var args []string
		for {
			a, err := p.parseSortName()
			if err != nil {
				return "", err
			}
			args = append(args, a)
			if p.isOp(",") {
				p.next()
				continue
			}
			break
		}
		if err := p.expectOp(">"); err != nil {
			return "", err
		}
		s += "<" + strings.Join(args, ",") + ">"
	}
	return s, nil
}

func (p *specParser) parsePostfix() (*SExpr, error) {
	var e *SExpr
	t := p.next()
	switch {
	case t.k == tInt:
		e = &SExpr{Op: "int", S: t.s}
	case t.k == tString:
		e = &SExpr{Op: "str", S: t.s}
	case t.k == tIdent:
		e = &SExpr{Op: "ident", S: t.s}
	case t.k == tOp && t.s == "(":
		x, err := p.parseExpr(0)
		if err != nil {
			return nil, err
		}
		if err := p.expectOp(")"); err != nil {
			return nil, err
		}
		e = x
	default:
		return nil, fmt.Errorf("unexpected token %q at %d in %q", t.s, t.pos, p.src)
	}
	for {
		switch {
		case p.isOp("."):
			p.next()
			f := p.next()
			if f.k != tIdent {
				return nil, fmt.Errorf("field name expected at %d in %q", f.pos, p.src)
			}
			e = &SExpr{Op: "sel", S: f.s, Args: []*SExpr{e}}
		case p.isOp("["):
			p.next()
			i, err := p.parseExpr(0)
			if err != nil {
				return nil, err
			}
			if err := p.expectOp("]"); err != nil {
				return nil, err
			}
			e = &SExpr{Op: "index", Args: []*SExpr{e, i}}
		case p.isOp("("):
			p.next()
			args := []*SExpr{e}
			if !p.isOp(")") {
				for {
					a, err := p.parseExpr(0)
					if err != nil {
						return nil, err
					}
					args = append(args, a)
					if p.isOp(",") {
						p.next()
						continue
					}
					break
				}
			}
			if err := p.expectOp(")"); err != nil {
				return nil, err
			}
			e = &SExpr{Op: "call", Args: args}
		default:
			return e, nil
		}
	}
}
