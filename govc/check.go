package main

import (
	"crypto/sha256"
	"encoding/json"
	"flag"
	"fmt"
	"os"
	"os/exec"
	"path/filepath"
	"regexp"
	"sort"
	"strconv"
	"strings"
	"time"
)

type KnownFinding struct {
	Property   string `json:"property"`
	Obligation string `json:"obligation"`
	What       string `json:"what"`
	Summary    string `json:"summary,omitempty"`
	Replay     string `json:"replay,omitempty"`
}

type KnownFindings struct {
	Findings []KnownFinding `json:"findings"`
	Fixed    []string       `json:"fixed"`
}

type Baseline struct {
	Property    string            `json:"property"`
	Obligations map[string]string `json:"obligations"` // name -> "discharged" | "known-finding"
	// callees without contract whose effects are havoc'd on the committed tree (all obligations pass in spite of
	// them). A failure that follows a call to an uncontracted function NOT in this list is "needs contract",
	// not a verdict (unless it replays on the real code).
	Uncontracted []string `json:"uncontracted,omitempty"`
	// sha256 of the SMT query of every obligation instance discharged on the committed tree. A query whose text is
	// byte-identical to one proved then, and which the solvers merely fail to finish now (timeout / unknown under
	// load), is not a change of the code: it is counted as discharged, and said so in the evidence.
	Queries map[string][]string `json:"queries,omitempty"`
}

type nameStatus struct {
	Name      string
	Status    string // discharged | sat | unknown | timeout | error
	Instances int
	Seconds   float64
	Solver    string
	Desc      string
	Fail      *Obligation // first failing instance
	Fails     []*Obligation
	Unit      *UnitResult
}

func loadJSON(path string, v interface{}) bool {
	b, err := os.ReadFile(path)
	if err != nil {
		return false
	}
	return json.Unmarshal(b, v) == nil
}

func propsOf(ct *FuncContract) []string { return ct.Props }

func hasProp(ps []string, p string) bool {
	for _, x := range ps {
		if x == p {
			return true
		}
	}
	return false
}

func cmdCheck(args []string) int {
	fs := flag.NewFlagSet("check", flag.ExitOnError)
	repo := fs.String("repo", "/repo", "repository root")
	tier := fs.String("tier", "quick", "quick|thorough")
	rebaseline := fs.Bool("rebaseline", false, "rewrite the baseline (refuses if anything is undischarged and not a known finding)")
	keep := fs.String("dump", "", "keep SMT files here")
	outDir := fs.String("out", "", "write evidence/ and replays/ under this directory instead of the verif directory (selftest)")
	fs.Parse(args)
	if fs.NArg() != 1 {
		usage()
	}
	prop := fs.Arg(0)
	vd := verifDir()
	if t := os.Getenv("VERIF_TIER"); t != "" && *tier == "quick" {
		*tier = t
	}
	seed := 0
	if s := os.Getenv("VERIF_SEED"); s != "" {
		seed, _ = strconv.Atoi(s)
	}
	t0 := time.Now()
	thorough := *tier == "thorough"
	timeout := 10 * time.Second
	if ms := os.Getenv("GOVC_TIMEOUT_MS"); ms != "" { // testing aid: provoke solver timeouts
		var n int
		if _, err := fmt.Sscanf(ms, "%d", &n); err == nil && n > 0 {
			defer func(d time.Duration) { _ = d }(timeout)
			timeout = time.Duration(n) * time.Millisecond
		}
	}
	if thorough {
		timeout = 60 * time.Second
	}

	od := vd
	if *outDir != "" {
		od = *outDir
	}
	ev := &Evidence{PropertyID: prop, Tier: *tier, Seed: seed, Level: "proof"}
	ev.Coverage.CheckerCmd = fmt.Sprintf("govc check -tier %s %s  (z3 5.1.0, cvc5 1.0, z3 4.8.12; per-obligation SMT-LIB files generated from /repo's working tree)", *tier, prop)
	fail := func(code int, msg string) int {
		// machinery problem: never a VIOLATION line
		fmt.Println("ERROR", msg)
		ev.Level = "other"
		ev.Coverage.Explanation = "check could not run: " + msg
		ev.WallS = time.Since(t0).Seconds()
		writeEvidence(od, ev)
		return code
	}

	cs, err := loadContracts(filepath.Join(vd, "spec"), *repo)
	if err != nil {
		return fail(2, "contracts: "+err.Error())
	}
	// units of this property
	type unitRef struct{ pkg, key string }
	var units []unitRef
	pkgSet := map[string]bool{}
	for _, k := range sortedKeys(cs.Funcs) {
		ct := cs.Funcs[k]
		if hasProp(ct.Props, prop) {
			units = append(units, unitRef{ct.PkgPath, ct.Key})
			pkgSet[ct.PkgPath] = true
		}
	}
	var lemmas []*Axiom
	for _, l := range cs.Lemmas {
		if hasProp(l.Props, prop) {
			lemmas = append(lemmas, l)
		}
	}
	if len(units) == 0 && len(lemmas) == 0 {
		return fail(2, "no contracts carry property "+prop)
	}
	var patterns []string
	for p := range pkgSet {
		patterns = append(patterns, relPattern(p))
	}
	sort.Strings(patterns)
	if len(patterns) == 0 {
		patterns = []string{"./stores/basestore"}
	}
	mf, cleanup, err := scratchModfile(*repo)
	if err != nil {
		return fail(2, err.Error())
	}
	defer cleanup()
	eng, err := loadEngine(*repo, mf, patterns, cs)
	if err != nil {
		// the tree does not compile: not a property verdict
		return fail(2, "load: "+err.Error())
	}
	loadS := time.Since(t0).Seconds()

	dir := *keep
	if dir == "" {
		dir, _ = os.MkdirTemp("", "govc-smt-")
		defer os.RemoveAll(dir)
	} else {
		os.MkdirAll(dir, 0o755)
	}

	var results []*UnitResult
	var all []*Obligation
	var undecided []string
	for _, ur := range units {
		u, err := eng.findUnit(ur.pkg, ur.key)
		if err != nil {
			undecided = append(undecided, fmt.Sprintf("%s::%s: %v", ur.pkg, ur.key, err))
			continue
		}
		r := eng.verifyUnit(u)
		if r.Aborted != "" {
			undecided = append(undecided, fmt.Sprintf("%s: %s", r.Key, r.Aborted))
		}
		// clause-level property tags: keep only the obligations that count for this property
		var kept []*Obligation
		for _, o := range r.Obls {
			if len(o.Props) == 0 || hasProp(o.Props, prop) {
				kept = append(kept, o)
			}
		}
		r.Obls = kept
		results = append(results, r)
		all = append(all, r.Obls...)
	}
	if len(lemmas) > 0 {
		lr, err := eng.verifyLemmas(prop, lemmas)
		if err != nil {
			undecided = append(undecided, "lemmas: "+err.Error())
		} else {
			results = append(results, lr)
			all = append(all, lr.Obls...)
		}
	}
	// vacuity covers: the entry condition of each unit and each exit path must be satisfiable
	covers := eng.coverObligations(results)
	solveAll(dir, append(append([]*Obligation(nil), all...), covers...), timeout, thorough, 16)
	// An obligation no solver decided within the tier's timeout is asked again, alone, with six times the
	// time and every solver: a machine under load must not turn a proof into an alarm. (A genuine failure
	// that the solvers cannot refute stays undecided either way and is then judged against the baseline.)
	var again []*Obligation
	for _, o := range all {
		if o.Status == "unknown" || o.Status == "timeout" {
			again = append(again, o)
		}
	}
	if len(again) > 0 && len(again) <= 24 {
		forgetCached(again)
		solveAll(dir, again, 6*timeout, true, 4)
	}

	// queries proved at baseline time that the solvers do not finish now
	var base0 Baseline
	timedOutKnown := 0
	if loadJSON(filepath.Join(vd, "baseline", prop+".json"), &base0) && !*rebaseline {
		for _, o := range all {
			if o.Status != "unknown" && o.Status != "timeout" {
				continue
			}
			h := queryHash(o)
			for _, k := range base0.Queries[o.Name] {
				if k == h {
					o.Status, o.Solver = "unsat", "baseline (identical query proved on the committed tree; solvers did not finish now)"
					timedOutKnown++
					break
				}
			}
		}
	}
	if timedOutKnown > 0 {
		ev.addAssumption(fmt.Sprintf("%d obligation instance(s) were not decided by the solvers within the time limit in this run; their queries are byte-identical to queries proved when the baseline was taken, so they are counted as discharged", timedOutKnown))
	}
	// aggregate by name
	byName := map[string]*nameStatus{}
	var names []string
	solverTime := 0.0
	for _, r := range results {
		for _, o := range r.Obls {
			ns := byName[o.Name]
			if ns == nil {
				ns = &nameStatus{Name: o.Name, Status: "discharged", Desc: o.Desc, Unit: r}
				byName[o.Name] = ns
				names = append(names, o.Name)
			}
			ns.Instances++
			ns.Seconds += o.Seconds
			solverTime += o.Seconds
			if o.Status == "unsat" {
				if ns.Solver == "" {
					ns.Solver = o.Solver
				}
				continue
			}
			ns.Fails = append(ns.Fails, o)
			if ns.Fail == nil || (o.Status == "sat" && ns.Fail.Status != "sat") {
				ns.Fail = o
				ns.Status = o.Status
			}
		}
	}
	sort.Strings(names)

	// vacuity result
	vac := map[string][2]int{} // unit -> reachable, total
	for _, cov := range covers {
		if len(cov.Props) > 0 && !hasProp(cov.Props, prop) {
			continue
		}
		x := vac[cov.Func]
		x[1]++
		if cov.Status != "unsat" { // sat or unknown: not shown dead
			x[0]++
		}
		vac[cov.Func] = x
	}
	var vacuous []string
	for u, x := range vac {
		if x[1] > 0 && x[0] == 0 {
			vacuous = append(vacuous, u)
		}
	}
	// antecedent covers of clauses that do not count for this property are ignored
	sort.Strings(vacuous)

	// baseline and known findings
	var base Baseline
	haveBase := loadJSON(filepath.Join(vd, "baseline", prop+".json"), &base)
	var kf KnownFindings
	loadJSON(filepath.Join(vd, "known_findings.json"), &kf)
	known := map[string]KnownFinding{}
	for _, f := range kf.Findings {
		if f.Property == prop {
			known[f.Obligation] = f
		}
	}

	baseUncontracted := map[string]bool{}
	for _, t := range base.Uncontracted {
		baseUncontracted[t] = true
	}
	if !haveBase {
		for _, o := range all {
			for _, t := range o.Taint {
				baseUncontracted[t] = true
			}
		}
	}
	discharged := 0
	violations := 0
	knownHit := 0
	var lines []string
	var samples []interface{}
	for _, n := range names {
		ns := byName[n]
		if ns.Status == "discharged" {
			discharged++
			if len(samples) < 12 {
				samples = append(samples, map[string]interface{}{"obligation": n, "result": "unsat", "solver": ns.Solver, "seconds": round3(ns.Seconds), "instances": ns.Instances, "what": ns.Desc})
			}
			continue
		}
		samples = append(samples, map[string]interface{}{"obligation": n, "result": ns.Status, "seconds": round3(ns.Seconds), "instances": ns.Instances, "what": ns.Desc})
		if f, ok := known[n]; ok {
			sum := f.Summary
			if sum == "" {
				sum = f.What
			}
			lines = append(lines, fmt.Sprintf("KNOWN-FINDING: property=%s %s %s", prop, n, sum))
			knownHit++
			ev.Coverage.KnownFindings = append(ev.Coverage.KnownFindings, map[string]interface{}{"obligation": n, "result": ns.Status, "what": f.What, "replay": f.Replay})
			continue
		}
		if ns.Status == "error" {
			// a solver could not even read the query: a defect of the machinery, never a verdict
			undecided = append(undecided, fmt.Sprintf("solver error on %s: %s", n, firstLines(ns.Fail.Output, 3)))
			continue
		}
		inBase := haveBase && base.Obligations[n] == "discharged"
		// prefer a failing instance whose path does not pass through a newly uncontracted callee
		newTaint := func(o *Obligation) []string {
			var out []string
			for _, t := range o.Taint {
				if !baseUncontracted[t] {
					out = append(out, t)
				}
			}
			return out
		}
		if len(newTaint(ns.Fail)) > 0 {
			for _, o := range ns.Fails {
				if len(newTaint(o)) == 0 && (o.Status == "sat" || ns.Fail.Status != "sat") {
					ns.Fail = o
					ns.Status = o.Status
					break
				}
			}
		}
		replayPath, replayed, rnote := eng.tryReplay(vd, od, prop, ns, timeout)
		nt := newTaint(ns.Fail)
		switch {
		case replayed:
			violations++
			lines = append(lines, "FAILED-OBLIGATION "+n+" ("+ns.Status+", replayed on the real code)")
			lines = append(lines, fmt.Sprintf("VIOLATION property=%s replay=%s", prop, replayPath))
		case ns.Unit != nil && ns.Unit.Aborted != "":
			// the unit's contract (or the contract of one of its callees) no longer binds to the code — a renamed
			// parameter, a removed identifier: its proof is incomplete, so a failing obligation of that unit says
			// nothing yet (the binding error itself is reported as UNDECIDED)
			undecided = append(undecided, fmt.Sprintf("obligation %s is %s in a unit whose contracts do not bind (%s)", n, ns.Status, firstLines(ns.Unit.Aborted, 1)))
		case strings.HasPrefix(rnote, "arbiter-passed: "):
			// the unit has a reference-model replay (exhaustive small + random histories against an executable
			// model of the property) and the real code passes it: a proof that no longer goes through — typically
			// loop invariants that do not fit a restructured loop — is then not a verdict
			undecided = append(undecided, fmt.Sprintf("obligation %s is %s, but %s", n, ns.Status, strings.TrimPrefix(rnote, "arbiter-passed: ")))
		case len(nt) > 0:
			// the failing path calls a function that has no contract (and had none, or did not exist, when the
			// baseline was taken): its effects are havoc'd, so the model may be spurious. Modular verification
			// cannot decide this obligation until that function is given a contract.
			why := "after a call to " + strings.Join(uniq(nt), ", ") + ", which has no contract: needs a contract"
			for _, t := range nt {
				if strings.HasPrefix(t, "ensures ") {
					why = "on a path where a callee's contract no longer binds to its code: " + strings.Join(uniq(nt), "; ")
					break
				}
			}
			undecided = append(undecided, fmt.Sprintf("obligation %s is %s %s (%s)", n, ns.Status, why, rnote))
		case inBase || !haveBase || ns.Status == "sat":
			// an obligation that was discharged on the committed tree and now fails, or a new obligation for
			// which a solver exhibits a model of the violation
			violations++
			lines = append(lines, "FAILED-OBLIGATION "+n+" ("+ns.Status+")")
			lines = append(lines, fmt.Sprintf("VIOLATION property=%s replay=%s no-failing-input-found", prop, replayPath))
		default:
			undecided = append(undecided, fmt.Sprintf("new obligation %s is %s (%s) and no model replays", n, ns.Status, rnote))
		}
	}
	// bounded stand-ins (labelled bounded, never counted as obligations)
	if tmpls, _ := filepath.Glob(filepath.Join(vd, "bounded", prop, "*.go.tmpl")); len(tmpls) > 0 {
		for _, tmpl := range tmpls {
			failed, _, out, _ := runReplayTemplateV(*repo, tmpl, map[string]string{}, true)
			label := "bounded (exhaustive up to the stated bound; not a proof)"
			if tb, err := os.ReadFile(tmpl); err == nil {
				for _, l := range strings.Split(string(tb), "\n") {
					if strings.HasPrefix(l, "// label:") {
						label = strings.TrimSpace(strings.TrimPrefix(l, "// label:"))
					}
				}
			}
			rec := map[string]interface{}{"stand_in": filepath.Base(tmpl), "label": label, "result": "held"}
			for _, l := range strings.Split(out, "\n") {
				if i := strings.Index(l, "GOVC-BOUNDED "); i >= 0 {
					rec["cases"] = strings.TrimSpace(l[i+len("GOVC-BOUNDED "):])
				}
			}
			if failed {
				rec["result"] = "violated"
				violations++
				rp := filepath.Join(od, "replays", prop, "bounded_"+mangle(filepath.Base(tmpl))+".json")
				os.MkdirAll(filepath.Dir(rp), 0o755)
				b, _ := json.MarshalIndent(map[string]interface{}{"property": prop, "bounded_stand_in": filepath.Base(tmpl), "test_output": out}, "", " ")
				os.WriteFile(rp, b, 0o644)
				lines = append(lines, fmt.Sprintf("VIOLATION property=%s replay=%s", prop, rp))
			}
			ev.Coverage.Bounded = append(ev.Coverage.Bounded, rec)
		}
	}
	if thorough {
		// (1) regression replays: every replay template of a function under contract for this property is run
		// with its default input on the real code. Templates of repaired defects must pass; the template of a
		// known finding must still fail (otherwise the finding is stale and the entry should be removed).
		knownTmpl := map[string]bool{}
		for _, f := range kf.Findings {
			if f.Replay != "" {
				knownTmpl[filepath.Base(f.Replay)] = true
			}
		}
		ran := map[string]bool{}
		var tmplList []string
		for _, r := range results {
			base := filepath.Join(vd, "replay", "templates", mangle(strings.ReplaceAll(r.Key, "berty.tech/go-orbit-db/", "")))
			if _, err := os.Stat(base + ".go.tmpl"); err == nil {
				tmplList = append(tmplList, base+".go.tmpl")
			}
			// scenario variants of the same unit: <unit>__<scenario>.go.tmpl
			vs, _ := filepath.Glob(base + "__*.go.tmpl")
			tmplList = append(tmplList, vs...)
		}
		for _, tmpl := range tmplList {
			if ran[tmpl] {
				continue
			}
			ran[tmpl] = true
			failed, _, out, _ := runReplayTemplateV(*repo, tmpl, map[string]string{}, false)
			rec := map[string]interface{}{"replay_template": filepath.Base(tmpl), "label": "bounded (one concrete run of the real code per template)"}
			switch {
			case failed && knownTmpl[filepath.Base(tmpl)]:
				rec["result"] = "fails as recorded (known finding)"
			case failed:
				rec["result"] = "FAILS"
				violations++
				rp := filepath.Join(od, "replays", prop, "regression_"+mangle(filepath.Base(tmpl))+".json")
				os.MkdirAll(filepath.Dir(rp), 0o755)
				b, _ := json.MarshalIndent(map[string]interface{}{"property": prop, "replay_template": filepath.Base(tmpl), "test_output": out}, "", " ")
				os.WriteFile(rp, b, 0o644)
				lines = append(lines, fmt.Sprintf("VIOLATION property=%s replay=%s", prop, rp))
			case knownTmpl[filepath.Base(tmpl)]:
				rec["result"] = "passes although recorded as a known finding (stale entry?)"
			default:
				rec["result"] = "passes"
			}
			ev.Coverage.Bounded = append(ev.Coverage.Bounded, rec)
		}
		// (2) must-fail / must-pass corpus for this property (machinery self-test; never a property verdict)
		if _, err := os.Stat(filepath.Join(vd, "selftest", "run.py")); err == nil && *outDir == "" {
			cmd := exec.Command("python3", filepath.Join(vd, "selftest", "run.py"), prop, "--jobs", "4")
			cmd.Env = append(os.Environ(), "VERIF_REPO="+*repo)
			out, _ := cmd.CombinedOutput()
			sum := ""
			ls := strings.Split(strings.TrimSpace(string(out)), "\n")
			if len(ls) > 0 {
				sum = ls[len(ls)-1]
			}
			ev.Coverage.Selftest = sum
			if strings.Contains(string(out), "WRONG") {
				fmt.Println("SELFTEST-MISS property=" + prop + " " + sum)
			}
			// (3) the independently seeded changes made for this property: how many does the check flag?
			// (informative: misses are listed in DESIGN.md with their reasons)
			cmd = exec.Command("python3", filepath.Join(vd, "selftest", "run.py"), "--seeded", prop, "--jobs", "4")
			cmd.Env = append(os.Environ(), "VERIF_REPO="+*repo)
			out, _ = cmd.CombinedOutput()
			caught, missed := 0, []string{}
			for _, l := range strings.Split(string(out), "\n") {
				f := strings.Fields(l)
				if len(f) == 4 && f[1] == "mutant" {
					if f[0] == "ok" {
						caught++
					} else {
						missed = append(missed, f[3])
					}
				}
			}
			ev.Coverage.Seeded = fmt.Sprintf("%d of %d independently seeded changes flagged; not flagged: %s", caught, caught+len(missed), strings.Join(missed, " "))
		}
	}
	// known findings that no longer fail are simply not printed (fixed entries suppress nothing)

	// missing baseline obligations
	if haveBase && !*rebaseline {
		// Only obligations that come from contract clauses must persist (a vanished post / invariant / assert
		// means part of the claim is no longer checked). Run-time safety, call-site and frame obligations
		// are derived from the code that exists: when an expression or a call goes away, so does its obligation.
		for n := range base.Obligations {
			if _, ok := byName[n]; !ok && contractDerived(n) {
				undecided = append(undecided, "baseline obligation no longer generated: "+n)
			}
		}
	}
	for _, v := range vacuous {
		undecided = append(undecided, "vacuous (no reachable exit path / antecedent never reachable): "+v)
	}
	sort.Strings(undecided)

	// evidence
	// obligations recorded as known findings are reported separately (KNOWN-FINDING lines, coverage.known_findings)
	// and are not part of the proof claim
	ev.Coverage.Obligations = len(names) - knownHit
	ev.Coverage.Discharged = discharged
	ev.Coverage.Samples = samples
	// slowest obligations (seconds summed over their path instances): candidates for proof hints
	slow := append([]string(nil), names...)
	sort.Slice(slow, func(i, j int) bool { return byName[slow[i]].Seconds > byName[slow[j]].Seconds })
	for i := 0; i < len(slow) && i < 5; i++ {
		ns := byName[slow[i]]
		ev.Coverage.Slowest = append(ev.Coverage.Slowest, map[string]interface{}{"obligation": slow[i], "seconds": round3(ns.Seconds), "instances": ns.Instances, "solver": ns.Solver})
	}
	ev.Coverage.Instances = len(all)
	ev.Coverage.ByBackend = map[string]int{}
	for _, o := range all {
		if o.Status == "unsat" {
			ev.Coverage.ByBackend[strings.TrimSuffix(o.Solver, " (cached)")]++
		}
	}
	ev.Coverage.SolverSeconds = round3(solverTime)
	ev.Coverage.LoadSeconds = round3(loadS)
	ev.Coverage.Undecided = undecided
	ev.Coverage.Vacuity = fmt.Sprintf("%d cover queries (entry condition and exit paths of each unit); units with no reachable exit path: %d", len(covers), len(vacuous))
	for _, r := range results {
		fu := map[string]interface{}{"function": r.Key, "paths": r.Paths, "obligation_instances": len(r.Obls)}
		if r.Contract != nil && r.Contract.Trusted {
			fu["trusted"] = true
		}
		ev.Coverage.Functions = append(ev.Coverage.Functions, fu)
		for _, n := range r.Notes {
			ev.addAssumption("abstraction exercised in " + shortUnit(r.Key) + ": " + n)
		}
	}
	ev.Coverage.TrustedBase = trustedBase(cs, eng)
	ev.Assumptions = append(ev.Assumptions, standingAssumptions()...)
	for _, k := range sortedKeys(known) {
		ev.addAssumption("known finding (reported, not counted as discharged): " + k + " — " + known[k].What)
	}
	ev.Violations = violations
	if discharged != len(names)-knownHit || len(undecided) > 0 {
		ev.Level = "other"
		ev.Coverage.Explanation = fmt.Sprintf("contract-based deductive verification: %d of %d obligations discharged; undecided: %d (see coverage.undecided); known findings: %d", discharged, len(names), len(undecided), len(known))
	}
	ev.WallS = round3(time.Since(t0).Seconds())
	writeEvidence(od, ev)

	if *rebaseline {
		if violations > 0 || len(undecided) > 0 {
			fmt.Println("refusing to rebaseline: violations or undecided items present")
			for _, l := range lines {
				fmt.Println(l)
			}
			for _, u := range undecided {
				fmt.Println("UNDECIDED", u)
			}
			return 2
		}
		nb := Baseline{Property: prop, Obligations: map[string]string{}}
		ts := map[string]bool{}
		for _, o := range all {
			for _, t := range o.Taint {
				ts[t] = true
			}
		}
		nb.Uncontracted = sortedKeys(ts)
		nb.Queries = map[string][]string{}
		for _, o := range all {
			if o.Status == "unsat" {
				nb.Queries[o.Name] = append(nb.Queries[o.Name], queryHash(o))
			}
		}
		for k := range nb.Queries {
			sort.Strings(nb.Queries[k])
		}
		for _, n := range names {
			if byName[n].Status == "discharged" {
				nb.Obligations[n] = "discharged"
			} else {
				nb.Obligations[n] = "known-finding"
			}
		}
		os.MkdirAll(filepath.Join(vd, "baseline"), 0o755)
		b, _ := json.MarshalIndent(nb, "", " ")
		os.WriteFile(filepath.Join(vd, "baseline", prop+".json"), append(b, '\n'), 0o644)
		fmt.Printf("baseline written: %d obligations\n", len(nb.Obligations))
	}

	fmt.Printf("property=%s tier=%s functions=%d obligations=%d discharged=%d instances=%d solver=%.1fs wall=%.1fs\n",
		prop, *tier, len(results), len(names), discharged, len(all), solverTime, time.Since(t0).Seconds())
	for _, u := range undecided {
		fmt.Printf("UNDECIDED property=%s %s\n", prop, u)
	}
	for _, l := range lines {
		fmt.Println(l)
	}
	if violations > 0 {
		return 1
	}
	return 0
}

var contractDerivedRe = regexp.MustCompile(`\.(post\.\d+|inv\.\d+(\.\d+)*\.(init|step)|assert@[^:]*|lemma\.[^:]*)$`)

func contractDerived(name string) bool { return contractDerivedRe.MatchString(name) }

func queryHash(o *Obligation) string {
	t := o.SMTFile
	if i := strings.Index(t, "(set-option"); i >= 0 {
		t = t[i:]
	}
	h := sha256.Sum256([]byte(t))
	return fmt.Sprintf("%x", h[:12])
}

func uniq(xs []string) []string {
	seen := map[string]bool{}
	var out []string
	for _, x := range xs {
		if !seen[x] {
			seen[x] = true
			out = append(out, x)
		}
	}
	return out
}

func shortUnit(k string) string {
	if i := strings.LastIndex(k, "/"); i >= 0 {
		return k[i+1:]
	}
	return k
}

func round3(x float64) float64 { return float64(int(x*1000+0.5)) / 1000 }

// ---------------------------------------------------------------------------

type Evidence struct {
	PropertyID string `json:"property_id"`
	Tier       string `json:"tier"`
	Seed       int    `json:"seed"`
	Level      string `json:"level"`
	Coverage   struct {
		Obligations   int                      `json:"obligations"`
		Discharged    int                      `json:"discharged"`
		CheckerCmd    string                   `json:"checker_cmd"`
		TrustedBase   []string                 `json:"trusted_base"`
		Samples       []interface{}            `json:"samples"`
		Instances     int                      `json:"obligation_instances"`
		SolverSeconds float64                  `json:"solver_seconds"`
		LoadSeconds   float64                  `json:"load_seconds"`
		Functions     []map[string]interface{} `json:"functions_under_contract"`
		Undecided     []string                 `json:"undecided"`
		Vacuity       string                   `json:"vacuity"`
		Explanation   string                   `json:"explanation,omitempty"`
		Bounded       []interface{}            `json:"bounded,omitempty"`
		KnownFindings []interface{}            `json:"known_findings,omitempty"`
		Slowest       []interface{}            `json:"slowest_obligations,omitempty"`
		Selftest      string                   `json:"selftest_corpus,omitempty"`
		Seeded        string                   `json:"seeded_changes,omitempty"`
		ByBackend     map[string]int           `json:"instances_discharged_by_backend,omitempty"`
	} `json:"coverage"`
	Assumptions []string `json:"assumptions"`
	WallS       float64  `json:"wall_s"`
	Violations  int      `json:"violations"`
	seen        map[string]bool
}

func (e *Evidence) addAssumption(s string) {
	if e.seen == nil {
		e.seen = map[string]bool{}
	}
	if e.seen[s] {
		return
	}
	e.seen[s] = true
	e.Assumptions = append(e.Assumptions, s)
}

func writeEvidence(vd string, ev *Evidence) {
	if ev.Coverage.TrustedBase == nil {
		ev.Coverage.TrustedBase = []string{}
	}
	if ev.Coverage.Samples == nil {
		ev.Coverage.Samples = []interface{}{}
	}
	if ev.Coverage.Undecided == nil {
		ev.Coverage.Undecided = []string{}
	}
	if ev.Assumptions == nil {
		ev.Assumptions = []string{}
	}
	os.MkdirAll(filepath.Join(vd, "evidence"), 0o755)
	b, _ := json.MarshalIndent(ev, "", " ")
	os.WriteFile(filepath.Join(vd, "evidence", ev.PropertyID+".json"), append(b, '\n'), 0o644)
}

func standingAssumptions() []string {
	return []string{
		"sequential execution: Lock/Unlock are no-ops, goroutine interleavings are not explored",
		"effects of fire-and-forget goroutines (go f(...)) are not applied; only the callee precondition is asserted at the spawn point",
		"integer + - * are mathematical (no overflow check); conversions are exact (modular) and flagged by conv obligations",
		"contents of strings and byte slices are abstract: only equality and length survive",
		"bodies of functions outside the contract set are replaced by their (assumed) contract, by pure/noeffect declarations, or by havoc",
		"termination is not verified",
		"slice backing arrays are not shared between different slice headers (append yields a fresh slice value)",
	}
}

func trustedBase(cs *Contracts, eng *Engine) []string {
	var tb []string
	tb = append(tb, "govc VC generator (/verif/govc): forward symbolic execution over go/ast + go/types of /repo's working tree")
	tb = append(tb, "go/packages + go/types (x/tools v0.29.0) for parsing and type information")
	tb = append(tb, "SMT solvers: z3 5.1.0 (z3-new), cvc5 1.0, z3 4.8.12 — an obligation is discharged iff one answers unsat and none answers sat")
	for _, k := range sortedKeys(cs.Externs) {
		tb = append(tb, "assumed contract (extern): "+k)
	}
	for _, k := range sortedKeys(cs.Pure) {
		tb = append(tb, "assumed pure: "+k)
	}
	for _, k := range sortedKeys(cs.NoEffect) {
		tb = append(tb, "assumed no effect on modelled state: "+k)
	}
	for _, k := range sortedKeys(cs.NoEffPkg) {
		tb = append(tb, "assumed no effect on modelled state: package "+k)
	}
	for _, a := range cs.Axioms {
		tb = append(tb, "axiom "+a.Name+": "+a.Src)
	}
	for _, k := range sortedKeys(cs.Funcs) {
		if cs.Funcs[k].Trusted {
			tb = append(tb, "trusted (contract assumed, body not verified): "+k)
		}
	}
	return tb
}

// ---------------------------------------------------------------------------
// covers

func (e *Engine) coverObligations(results []*UnitResult) []*Obligation {
	var out []*Obligation
	for _, r := range results {
		seen := map[int]bool{}
		if len(r.Obls) > 0 {
			// declarations and axioms alone must be satisfiable
			o := r.Obls[0]
			i := strings.Index(o.SMTFile, "(assert (")
			hdr := o.SMTFile
			if j := strings.LastIndex(o.SMTFile, "; axiom "); j >= 0 {
				hdr = o.SMTFile[:j+strings.Index(o.SMTFile[j:], "\n")+1]
			} else if i >= 0 {
				hdr = ""
			}
			if hdr != "" {
				out = append(out, &Obligation{Name: o.Func + ".cover.axioms", Kind: "cover", Func: o.Func + " (axioms)", Goal: "false", Desc: "axioms consistent", SMTFile: hdr + "(check-sat)\n"})
			}
		}
		for _, o := range r.Obls {
			if o.Kind != "post" && o.Kind != "frame" && o.Kind != "lemma" {
				continue
			}
			if o.Kind == "lemma" {
				continue
			}
			if seen[o.PathNo] {
				continue
			}
			seen[o.PathNo] = true
			cov := &Obligation{Name: o.Func + ".cover.path", Kind: "cover", Func: o.Func, PC: o.PC, Goal: "false", Desc: "exit path reachable (vacuity guard)"}
			// reuse declarations of the original SMT text
			i := strings.LastIndex(o.SMTFile, "(assert (not ")
			cov.SMTFile = o.SMTFile[:i] + "(assert (not false))\n(check-sat)\n"
			out = append(out, cov)
		}
	}
	for _, r := range results {
		out = append(out, r.AnteCov...)
	}
	return out
}

// verifyLemmas proves the lemmas tagged with the property from spec-function definitions and axioms only.
func (e *Engine) verifyLemmas(prop string, lemmas []*Axiom) (*UnitResult, error) {
	var anyUnit *FuncUnit
	for _, p := range e.roots {
		anyUnit = &FuncUnit{Pkg: p, Key: "lemmas"}
		break
	}
	c := newCtx(e, anyUnit)
	c.funcKey = "lemma"
	st := newState()
	res := &UnitResult{Key: "lemmas(" + prop + ")"}
	for _, l := range lemmas {
		env := &SpecEnv{c: c, st: st, bound: map[string]Val{}}
		t, err := env.trBool(l.Expr)
		if err != nil {
			return nil, fmt.Errorf("lemma %s: %v", l.Name, err)
		}
		o := &Obligation{Name: "lemma." + l.Name, Kind: "lemma", Func: "lemma", Goal: t, Desc: "lemma `" + l.Src + "`", Props: l.Props}
		res.Obls = append(res.Obls, o)
	}
	axs, err := c.axiomAsserts()
	if err != nil {
		return nil, err
	}
	decls := append(append([]string(nil), c.decls...), c.litAxioms()...)
	decls = append(decls, axs...)
	for _, o := range res.Obls {
		o.SMTFile = buildSMT(decls, o)
	}
	return res, nil
}

// ---------------------------------------------------------------------------
// replay

type ReplayFile struct {
	Property   string            `json:"property"`
	Obligation string            `json:"obligation"`
	What       string            `json:"what"`
	Status     string            `json:"solver_status"`
	SolverOut  string            `json:"solver_output"`
	Model      map[string]string `json:"model,omitempty"`
	RawModel   string            `json:"raw_model,omitempty"`
	Test       string            `json:"generated_test,omitempty"`
	TestOutput string            `json:"test_output,omitempty"`
	Replayed   bool              `json:"replayed_on_real_code"`
	Note       string            `json:"note,omitempty"`
	SMT        string            `json:"smt,omitempty"`
}

func obligationFile(vd, prop, name string) string {
	return filepath.Join(vd, "replays", prop, mangle(strings.ReplaceAll(name, "berty.tech/go-orbit-db/", ""))+".json")
}

// tryReplay writes the replay file for a failing obligation and, when the solver gave a model and a
// replay template exists for the function, runs the real code on the model input.
func (e *Engine) tryReplay(vd, od, prop string, ns *nameStatus, timeout time.Duration) (path string, replayed bool, note string) {
	path = obligationFile(od, prop, ns.Name)
	os.MkdirAll(filepath.Dir(path), 0o755)
	rf := &ReplayFile{Property: prop, Obligation: ns.Name, What: ns.Desc, Status: ns.Status}
	if ns.Fail != nil {
		rf.SolverOut = ns.Fail.Output
		rf.RawModel = firstLines(ns.Fail.Model, 400)
		if len(ns.Fail.SMTFile) < 200000 {
			rf.SMT = ns.Fail.SMTFile
		}
	}
	note = "no model"
	if ns.Fail != nil && ns.Status == "sat" {
		rf.Model = parseModelInts(ns.Fail.Model)
		tmpl := filepath.Join(vd, "replay", "templates", mangle(strings.ReplaceAll(ns.Fail.Func, "berty.tech/go-orbit-db/", ""))+".go.tmpl")
		if _, err := os.Stat(tmpl); err == nil {
			ok, test, out, n := runReplayTemplate(e.repoRoot, tmpl, ns.Fail, rf.Model)
			rf.Test, rf.TestOutput, rf.Replayed, rf.Note = test, out, ok, n
			replayed = ok
			note = n
		} else {
			rf.Note = "no replay template for " + ns.Fail.Func
			note = rf.Note
		}
	}
	// scenario / reference-model variants of the unit's template: <unit>__<name>.go.tmpl (run once per unit)
	if ns.Fail != nil && !replayed {
		base := filepath.Join(vd, "replay", "templates", mangle(strings.ReplaceAll(ns.Fail.Func, "berty.tech/go-orbit-db/", "")))
		vs, _ := filepath.Glob(base + "__*.go.tmpl")
		for _, v := range vs {
			res, ok := variantRuns[e.repoRoot+"|"+v]
			if !ok {
				failed, _, out, _ := runReplayTemplateV(e.repoRoot, v, map[string]string{}, false)
				res = variantRun{failed: failed, out: out, arbiter: isArbiter(v)}
				variantRuns[e.repoRoot+"|"+v] = res
			}
			if res.failed {
				replayed = true
				rf.Replayed, rf.TestOutput, rf.Note = true, res.out, "scenario template "+filepath.Base(v)+" fails on the real code"
				note = rf.Note
				break
			}
			if res.arbiter {
				rf.Note = "reference-model replay " + filepath.Base(v) + " passes on the real code: the failed proof step is not confirmed by any of its histories"
				note = "arbiter-passed: " + rf.Note
			}
		}
	}
	b, _ := json.MarshalIndent(rf, "", " ")
	os.WriteFile(path, append(b, '\n'), 0o644)
	return path, replayed, note
}

type variantRun struct {
	failed  bool
	out     string
	arbiter bool
}

var variantRuns = map[string]variantRun{}

// isArbiter: a template that declares `// arbiter: yes` is a reference-model test of its unit strong enough to
// arbitrate a failed proof: when it passes on the real code, failures of that unit are reported as undecided.
func isArbiter(tmpl string) bool {
	b, err := os.ReadFile(tmpl)
	if err != nil {
		return false
	}
	for _, l := range strings.Split(string(b), "\n") {
		if strings.TrimSpace(l) == "// arbiter: yes" {
			return true
		}
		if strings.HasPrefix(l, "package ") {
			break
		}
	}
	return false
}

// parseModelInts extracts integer-valued constants from a get-model answer.
func parseModelInts(model string) map[string]string {
	out := map[string]string{}
	lines := strings.Split(model, "\n")
	for i := 0; i < len(lines); i++ {
		l := strings.TrimSpace(lines[i])
		if !strings.HasPrefix(l, "(define-fun ") {
			continue
		}
		f := strings.Fields(l)
		if len(f) < 4 || f[2] != "()" {
			continue
		}
		name := f[1]
		sort := f[3]
		if sort != "Int" && sort != "Bool" {
			continue
		}
		rest := strings.TrimSpace(strings.Join(f[4:], " "))
		if rest == "" && i+1 < len(lines) {
			rest = strings.TrimSpace(lines[i+1])
		}
		rest = strings.TrimSuffix(rest, ")")
		rest = strings.TrimSpace(rest)
		if strings.HasPrefix(rest, "(- ") {
			rest = "-" + strings.TrimSuffix(strings.TrimPrefix(rest, "(- "), ")")
		}
		out[name] = strings.TrimSpace(rest)
	}
	return out
}

func runReplayTemplate(repo, tmpl string, o *Obligation, model map[string]string) (bool, string, string, string) {
	return runReplayTemplateV(repo, tmpl, model, false)
}

func runReplayTemplateV(repo, tmpl string, model map[string]string, verbose bool) (bool, string, string, string) {
	b, err := os.ReadFile(tmpl)
	if err != nil {
		return false, "", "", err.Error()
	}
	src := string(b)
	// header: "// pkgdir: stores/basestore" and "// run: TestReplay..."
	pkgdir, run := "", "TestGovcReplay"
	for _, l := range strings.Split(src, "\n") {
		if strings.HasPrefix(l, "// pkgdir:") {
			pkgdir = strings.TrimSpace(strings.TrimPrefix(l, "// pkgdir:"))
		}
		if strings.HasPrefix(l, "// run:") {
			run = strings.TrimSpace(strings.TrimPrefix(l, "// run:"))
		}
	}
	// substitute {{name}} / {{name|default}} with model values (by constant-name prefix)
	for {
		i := strings.Index(src, "{{")
		if i < 0 {
			break
		}
		j := strings.Index(src[i:], "}}")
		if j < 0 {
			break
		}
		key := src[i+2 : i+j]
		def := "0"
		if k := strings.Index(key, "|"); k >= 0 {
			def = key[k+1:]
			key = key[:k]
		}
		val, ok := "", false
		var cands []string
		for n := range model {
			if n == key || strings.HasPrefix(n, key+"!") {
				cands = append(cands, n)
			}
		}
		sort.Strings(cands)
		if len(cands) > 0 {
			val, ok = model[cands[0]], true
		}
		if !ok {
			val = def
		}
		src = src[:i] + val + src[i+j+2:]
	}
	d, err := os.MkdirTemp("", "govc-replay-")
	if err != nil {
		return false, src, "", err.Error()
	}
	defer os.RemoveAll(d)
	testFile := filepath.Join(d, "govc_replay_test.go")
	os.WriteFile(testFile, []byte(src), 0o644)
	for _, f := range []string{"go.mod", "go.sum"} {
		c, _ := os.ReadFile(filepath.Join(repo, f))
		os.WriteFile(filepath.Join(d, f), c, 0o644)
	}
	ov := map[string]map[string]string{"Replace": {filepath.Join(repo, pkgdir, "govc_replay_test.go"): testFile}}
	ob, _ := json.Marshal(ov)
	ovFile := filepath.Join(d, "overlay.json")
	os.WriteFile(ovFile, ob, 0o644)
	args := []string{"test", "-modfile=" + filepath.Join(d, "go.mod"), "-overlay", ovFile, "-vet=off", "-count=1", "-timeout", "300s", "-run", "^" + run + "$"}
	if verbose {
		args = append(args, "-v")
	}
	args = append(args, "./"+pkgdir)
	cmd := exec.Command("go", args...)
	cmd.Dir = repo
	cmd.Env = append(os.Environ(), "GOFLAGS=-mod=mod", "GOPROXY=off", "GOSUMDB=off", "GOTOOLCHAIN=local")
	out, err := cmd.CombinedOutput()
	txt := string(out)
	if len(txt) > 6000 {
		txt = txt[:6000]
	}
	if err != nil && (strings.Contains(txt, "GOVC-REPLAY-VIOLATION") || strings.Contains(txt, "GOVC-BOUNDED-VIOLATION")) {
		return true, src, txt, "the real function run on the model input violates the contract clause"
	}
	if err != nil && (strings.Contains(txt, "panic:") || strings.Contains(txt, "FAIL")) && !strings.Contains(txt, "[build failed]") && !strings.Contains(txt, "[setup failed]") && !strings.Contains(txt, "GOVC-REPLAY-OK") {
		return true, src, txt, "the real function run on the model input fails (panic or test failure)"
	}
	return false, src, txt, "model did not reproduce on the real code (or replay could not be built)"
}
