#!/usr/bin/env python3
"""Must-fail / must-pass corpus for the govc checks.

selftest/mutants/<Cnn>/*.patch  : property-breaking edits of /repo; each must turn the check of <Cnn> into exit 1 + VIOLATION
selftest/harmless/<Cnn>/*.patch : behaviour-preserving refactors; each must leave the check at exit 0 without VIOLATION
Each patch is applied to a scratch copy of /repo's working tree (outside /repo and /verif), removed afterwards.
usage: run.py [Cnn ...] [--jobs N]
"""
import os, subprocess, sys, tempfile, shutil, glob, concurrent.futures, json

VD = os.path.dirname(os.path.dirname(os.path.abspath(__file__)))
REPO = os.environ.get("VERIF_REPO", "/repo")

def run_one(kind, prop, patch):
    d = tempfile.mkdtemp(prefix="govc-selftest-")
    try:
        repo = os.path.join(d, "repo")
        subprocess.run(["rsync", "-a", "--exclude", ".git", REPO + "/", repo + "/"], check=True)
        r = subprocess.run(["patch", "-p1", "-s", "-d", repo, "-i", patch], capture_output=True, text=True)
        if r.returncode != 0:
            return (kind, prop, patch, "PATCH-DOES-NOT-APPLY", r.stdout + r.stderr)
        out = os.path.join(d, "out")
        env = dict(os.environ, VERIF_DIR=VD)
        p = subprocess.run([os.path.join(VD, "bin", "govc"), "check", "-repo", repo, "-out", out, prop],
                           capture_output=True, text=True, env=env)
        viol = "VIOLATION property=" in p.stdout
        if kind == "mutant":
            ok = p.returncode == 1 and viol
        else:
            ok = p.returncode == 0 and not viol
        return (kind, prop, patch, "ok" if ok else "WRONG", p.stdout[-1500:] + p.stderr[-500:])
    finally:
        shutil.rmtree(d, ignore_errors=True)

def main():
    args = [a for a in sys.argv[1:] if not a.startswith("--")]
    jobs = 4
    if "--jobs" in sys.argv:
        jobs = int(sys.argv[sys.argv.index("--jobs") + 1]); args = [a for a in args if a != str(jobs)]
    work = []
    if "--seeded" in sys.argv:
        # independently produced property-breaking changes (sub-agents): report which checks catch which
        for sd in sorted(glob.glob(os.path.join(VD, "seeded", "C*-m*"))):
            prop = os.path.basename(sd).split("-")[0]
            if args and prop not in args and os.path.basename(sd) not in args:
                continue
            work.append(("mutant", prop, os.path.join(sd, "patch.diff")))
    for kind, sub in (() if "--seeded" in sys.argv else (("mutant", "mutants"), ("harmless", "harmless"))):
        for pd in sorted(glob.glob(os.path.join(VD, "selftest", sub, "C*"))):
            prop = os.path.basename(pd)
            if args and prop not in args:
                continue
            for patch in sorted(glob.glob(os.path.join(pd, "*.patch"))):
                work.append((kind, prop, patch))
    bad = 0
    with concurrent.futures.ThreadPoolExecutor(max_workers=jobs) as ex:
        for kind, prop, patch, res, out in ex.map(lambda w: run_one(*w), work):
            label = os.path.basename(patch) if not patch.endswith("patch.diff") else os.path.basename(os.path.dirname(patch))
            print(f"{res:8s} {kind:8s} {prop} {label}")
            if res != "ok":
                bad += 1
                print("    " + out.replace("\n", "\n    "))
    print(f"selftest: {len(work)} cases, {bad} wrong")
    sys.exit(1 if bad else 0)

main()
