#!/usr/bin/env python3
"""Must-fail / must-pass corpus for the govc checks.

selftest/mutants/<Cnn>/*.patch  : property-breaking edits of /repo; each must turn the check of <Cnn> into exit 1 + VIOLATION
selftest/harmless/<Cnn>/*.patch : behaviour-preserving refactors; each must leave the check at exit 0 without VIOLATION
Each patch is applied to a scratch copy of /repo's working tree (outside /repo and /verif), removed afterwards.
usage: run.py [Cnn ...] [--jobs N]
"""
import os, subprocess, sys, tempfile, shutil, glob, concurrent.futures, json

VD = os.path.dirname(os.path.dirname(os.path.abspath(__file__)))
REPO = os.environ.get("VERIF_REPO", "/repo")

def run_one(kind, prop, patch):
    d = tempfile.mkdtemp(prefix="govc-selftest-")
    try:
        repo = os.path.join(d, "repo")
        subprocess.run(["rsync", "-a", "--exclude", ".git", REPO + "/", repo + "/"], check=True)
        r = subprocess.run(["patch", "-p1", "-s", "-d", repo, "-i", patch], capture_output=True, text=True)
        if r.returncode != 0:
            return (kind, prop, patch, "PATCH-DOES-NOT-APPLY", r.stdout + r.stderr)
        out = os.path.join(d, "out")
        env = dict(os.environ, VERIF_DIR=VD)
        p = subprocess.run([os.path.join(VD, "bin", "govc"), "check", "-repo", repo, "-out", out, prop],
                           capture_output=True, text=True, env=env)
        viol = "VIOLATION property=" in p.stdout
        if kind == "mutant":
            ok = p.returncode == 1 and viol
        else:
            ok = p.returncode == 0 and not viol
        return (kind, prop, patch, "ok" if ok else "WRONG", p.stdout[-6000:] + p.stderr[-500:])
    finally:
        shutil.rmtree(d, ignore_errors=True)

def run_cross(sd, props):
    """apply one seeded change and run EVERY claimed check on it: which checks notice it?"""
    d = tempfile.mkdtemp(prefix="govc-cross-")
    res = {}
    try:
        repo = os.path.join(d, "repo")
        subprocess.run(["rsync", "-a", "--exclude", ".git", REPO + "/", repo + "/"], check=True)
        r = subprocess.run(["patch", "-p1", "-s", "-d", repo, "-i", os.path.join(sd, "patch.diff")], capture_output=True, text=True)
        if r.returncode != 0:
            return os.path.basename(sd), {"error": "patch does not apply"}
        for prop in props:
            out = os.path.join(d, "out-" + prop)
            p = subprocess.run([os.path.join(VD, "bin", "govc"), "check", "-repo", repo, "-out", out, prop],
                               capture_output=True, text=True, env=dict(os.environ, VERIF_DIR=VD))
            if p.returncode == 1 and "VIOLATION property=" in p.stdout:
                res[prop] = "VIOLATION"
            elif "UNDECIDED property=" in p.stdout:
                res[prop] = "undecided"
            elif p.returncode == 0:
                res[prop] = "-"
            else:
                res[prop] = "error(%d)" % p.returncode
            shutil.rmtree(out, ignore_errors=True)
        return os.path.basename(sd), res
    finally:
        shutil.rmtree(d, ignore_errors=True)

def cross(jobs, args):
    man = json.load(open(os.path.join(VD, "MANIFEST.json")))
    props = [c["property_id"] for c in man["checks"]]
    seeds = [sd for sd in sorted(glob.glob(os.path.join(VD, "seeded", "C*-m*"))) if not args or os.path.basename(sd) in args]
    matrix = {}
    with concurrent.futures.ThreadPoolExecutor(max_workers=jobs) as ex:
        for name, res in ex.map(lambda sd: run_cross(sd, props), seeds):
            matrix[name] = res
            print(name, " ".join(f"{k}:{v}" for k, v in res.items() if v != "-"), flush=True)
    json.dump(matrix, open(os.path.join(VD, "seeded", "MATRIX.json"), "w"), indent=1, sort_keys=True)

run_harm_props = None

def run_harm(patch, props):
    """apply one behaviour-preserving change and run EVERY claimed check on it: any VIOLATION is a false alarm"""
    d = tempfile.mkdtemp(prefix="govc-harm-")
    res = {}
    try:
        repo = os.path.join(d, "repo")
        subprocess.run(["rsync", "-a", "--exclude", ".git", REPO + "/", repo + "/"], check=True)
        r = subprocess.run(["patch", "-p1", "-s", "-d", repo, "-i", os.path.abspath(patch)], capture_output=True, text=True)
        if r.returncode != 0:
            return patch, {"harness": "error: patch does not apply"}
        for prop in props:
            out = os.path.join(d, "out-" + prop)
            p = subprocess.run([os.path.join(VD, "bin", "govc"), "check", "-repo", repo, "-out", out, prop],
                               capture_output=True, text=True, env=dict(os.environ, VERIF_DIR=VD))
            if "VIOLATION property=" in p.stdout or p.returncode == 1:
                res[prop] = "VIOLATION: " + "; ".join(l.split(" ", 1)[1].split("::")[-1] for l in p.stdout.splitlines() if l.startswith("FAILED-OBLIGATION "))[:600]
            elif "UNDECIDED property=" in p.stdout:
                res[prop] = "undecided: " + "; ".join(l.split(" ", 2)[2][:160] for l in p.stdout.splitlines() if l.startswith("UNDECIDED property="))[:500]
            elif p.returncode != 0:
                res[prop] = "error(%d)" % p.returncode
            shutil.rmtree(out, ignore_errors=True)
        return patch, res
    finally:
        shutil.rmtree(d, ignore_errors=True)

def props_by_pkg():
    """package directory (relative to the repo) -> properties that have a unit under contract there"""
    import re
    out = {}
    for f in glob.glob(os.path.join(REPO, "**", "verif_contracts.go"), recursive=True):
        d = os.path.relpath(os.path.dirname(f), REPO)
        for m in re.finditer(r"^//@\s+props\s+(.*)$", open(f).read(), re.M):
            for p in m.group(1).split():
                if re.fullmatch(r"C\d\d", p):
                    out.setdefault(d, set()).add(p)
    return out

def harm(jobs, root):
    man = json.load(open(os.path.join(VD, "MANIFEST.json")))
    props = [c["property_id"] for c in man["checks"]]
    global run_harm_props
    if "--touched-only" in sys.argv:
        # modular verification: a change can only affect the units of the packages it touches (plus units that
        # inline small helpers from there: same package in practice); run just those properties' checks
        bypkg = props_by_pkg()
        allp = props
        def pick(patch):
            dirs = set()
            for l in open(patch):
                if l.startswith("+++ b/"):
                    dirs.add(os.path.dirname(l[6:].strip()))
            sel = set()
            for d in dirs:
                sel |= bypkg.get(d, set())
            return [p for p in allp if p in sel]
        run_harm_props = pick
    patches = sorted(glob.glob(os.path.join(root, "**", "patch.diff"), recursive=True) + glob.glob(os.path.join(root, "**", "*.patch"), recursive=True))
    results = {}
    with concurrent.futures.ThreadPoolExecutor(max_workers=jobs) as ex:
        for patch, res in ex.map(lambda pt: run_harm(pt, run_harm_props(pt) if run_harm_props else props), patches):
            results[patch] = res
            bad = {k: v for k, v in res.items() if v.startswith("VIOLATION") or v.startswith("error")}
            und = [k for k, v in res.items() if v.startswith("undecided")]
            print(("FALSE-ALARM " if bad else "quiet       ") + patch + ("  undecided: " + " ".join(und) if und else ""), flush=True)
            for k, v in bad.items():
                print("    " + k + " " + v, flush=True)
    out = "harm_results.json" if os.path.basename(os.path.normpath(root)) == "harmless-agents" else "harm_results_" + os.path.basename(os.path.normpath(root)) + ".json"
    json.dump(results, open(os.path.join(VD, "selftest", out), "w"), indent=1, sort_keys=True)

def main():
    if "--harmdir" in sys.argv:
        jobs = int(sys.argv[sys.argv.index("--jobs") + 1]) if "--jobs" in sys.argv else 4
        harm(jobs, sys.argv[sys.argv.index("--harmdir") + 1])
        return
    if "--cross" in sys.argv:
        jobs = int(sys.argv[sys.argv.index("--jobs") + 1]) if "--jobs" in sys.argv else 4
        cross(jobs, [a for a in sys.argv[1:] if not a.startswith("--") and not a.isdigit()])
        return
    args = [a for a in sys.argv[1:] if not a.startswith("--")]
    jobs = 4
    if "--jobs" in sys.argv:
        jobs = int(sys.argv[sys.argv.index("--jobs") + 1]); args = [a for a in args if a != str(jobs)]
    work = []
    if "--seeded" in sys.argv:
        # independently produced property-breaking changes (sub-agents): report which checks catch which
        for sd in sorted(glob.glob(os.path.join(VD, "seeded", "C*-m*"))):
            prop = os.path.basename(sd).split("-")[0]
            if args and prop not in args and os.path.basename(sd) not in args:
                continue
            work.append(("mutant", prop, os.path.join(sd, "patch.diff")))
    for kind, sub in (() if "--seeded" in sys.argv else (("mutant", "mutants"), ("harmless", "harmless"))):
        for pd in sorted(glob.glob(os.path.join(VD, "selftest", sub, "C*"))):
            prop = os.path.basename(pd)
            if args and prop not in args:
                continue
            for patch in sorted(glob.glob(os.path.join(pd, "*.patch"))):
                work.append((kind, prop, patch))
    bad = 0
    with concurrent.futures.ThreadPoolExecutor(max_workers=jobs) as ex:
        for kind, prop, patch, res, out in ex.map(lambda w: run_one(*w), work):
            label = os.path.basename(patch) if not patch.endswith("patch.diff") else os.path.basename(os.path.dirname(patch))
            if patch.endswith("patch.diff") and "--record" in sys.argv:
                mp = os.path.join(os.path.dirname(patch), "meta.json")
                try:
                    meta = json.load(open(mp))
                except Exception:
                    meta = {}
                viol = [l.split(" ", 1)[1].split("::")[-1] for l in out.splitlines() if l.startswith("FAILED-OBLIGATION ")]
                meta["detected_by_check"] = prop if res == "ok" else None
                meta["failed_obligations"] = sorted(set(viol))[:12]
                json.dump(meta, open(mp, "w"), indent=1)
            und = " (undecided: proof incomplete, no alarm)" if kind == "harmless" and "UNDECIDED property=" in out else ""
            print(f"{res:8s} {kind:8s} {prop} {label}{und}")
            if res != "ok":
                bad += 1
                print("    " + out.replace("\n", "\n    "))
    print(f"selftest: {len(work)} cases, {bad} wrong")
    sys.exit(1 if bad else 0)

main()
