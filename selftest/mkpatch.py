#!/usr/bin/env python3
"""mkpatch.py <repo-relative-file> <out.patch> : reads a python dict literal {old: new, ...} from stdin,
applies the replacements (each must match exactly once) to /repo's file and writes a unified diff."""
import sys, difflib, ast
rel, out = sys.argv[1], sys.argv[2]
reps = ast.literal_eval(sys.stdin.read())
src = open('/repo/' + rel).read()
new = src
for o, n in reps.items():
    assert new.count(o) == 1, ("pattern must match once", o, new.count(o))
    new = new.replace(o, n)
d = difflib.unified_diff(src.splitlines(True), new.splitlines(True), 'a/' + rel, 'b/' + rel)
open(out, 'w').write(''.join(d))
print("wrote", out)
